"""C17 — dates and times show exactly the selected fields with the right values.

Model: lean/Pyrealb/Model/Date.lean (+ DateTables over the generated Gen/DateRules) ; theorems: Props/C17.lean.

Correspondence (model driver `drv_date` vs the real pyrealb, same lines):
  date   DT(datetime | ISO string).dOpt({7 fields, det[, nat][, rtime]})[.nat(b)].realize() in both languages
  api    arbitrary call sequences DT(lemma).dOpt(..).nat(..)… including malformed ones (warnings are counted)
  cal    toordinal / weekday / validity / next day against Python's datetime
  scan   the format scanner against Python's `re` with the pattern lifted from Terminal.dateFormat
  parse  Constituent.parseDateString
  cells  placeholders of every shipped format cell
Direct oracle (independent of the model, on the text the implementation returned): the numbers printed are exactly
the values of the selected fields (12-hour clock 1..12 in English, 24-hour in French), weekday / month names are
those of the calendar date, a.m./p.m. present and right in English, noon / midnight wording only at 12:00 / 00:00,
relative wording denotes the signed day difference; the numeric fields are read positionally by the language's
convention (English month/day/year, French day/month/year; hour, minute, second); any exception is a failure.
Every failure is shrunk (rtime dropped, date part / time part separated, values moved to a canonical instant,
nat/det reset to their defaults, each step kept only if the same kind of failure persists) and the shrunk input is
the signature.
"""
import datetime
import io
import json
import multiprocessing
import os
import re
import subprocess
import sys
import hashlib
import random

from harness import core

META = {
    "ops": "date,api,hist,cal,scan,parse,cells",
    "driver": "drv_date",
    "translators": ["date"],
    "technique": "Lean 4 proof (calendar arithmetic for all dates; complete-table decide over the generated format "
                 "tables; case analysis for all day differences) + differential correspondence + direct oracle",
    "level_text": "Kernel-checked: toordinal +1 across every day/month/year/leap boundary and strictly monotone, weekday "
                  "advances by one (all dates); for the shipped tables of both languages, regenerated from the repository on "
                  "every run: placeholders of every format cell = selected fields (refuted: the 7 subsets without a format), 12/24-hour "
                  "clock over all 24 hours and every cell showing the hour (holds), noon/midnight selection iff 00:00:00 / "
                  "12:00:00, relative wording denotes the signed difference for every difference, exact characterisation of "
                  "the inputs on which dateFormat raises.",
    "level_note": "Trusted: Lean kernel; the translator; the model/implementation correspondence (differential, finite); "
                  "Python's datetime for the calendar side of the correspondence. rtime=True / DT() (wall clock) and "
                  "Unicode digits in ISO strings are outside the model.",
    "rule": "date lines: both languages x nat x det x 2^7 field subsets x 24 hours x minute/second zero classes x dates "
            "across year/month/leap boundaries 1900-2100 x rtime offsets -400..400; API routes datetime/ISO string, "
            ".nat()/dOpt; non-trivial = at least one field or rtime selected and the (line, answer) pair is new",
    "assumptions": ["A_today: outputs that depend on datetime.datetime.today() (DT(), rtime=True, unparsable strings) are "
                    "compared on the number of warnings only",
                    "A_ascii: ISO strings are ASCII (Python's \\d also accepts other Unicode digits)"],
    "trusted": ["Python's datetime (toordinal, weekday, timedelta) as the calendar reference of the correspondence and the oracle"],
}

CANON = [2015, 7, 23, 11, 25, 45]          # Thursday; all six values distinct
FIELDS = ["year", "month", "date", "day", "hour", "minute", "second"]
WD = {"en": ["Monday", "Tuesday", "Wednesday", "Thursday", "Friday", "Saturday", "Sunday"],
      "fr": ["lundi", "mardi", "mercredi", "jeudi", "vendredi", "samedi", "dimanche"]}
MO = {"en": [None, "January", "February", "March", "April", "May", "June", "July", "August", "September", "October",
             "November", "December"],
      "fr": [None, "janvier", "février", "mars", "avril", "mai", "juin", "juillet", "août", "septembre", "octobre",
             "novembre", "décembre"]}
FILL = {"en": {"on", "the", "in", "at", "min", "s"}, "fr": {"le", "en", "à", "h", "min", "s"}}
NM = {"en": {"midnight": 0, "noon": 12}, "fr": {"minuit": 0, "midi": 12}}
MER = ["a.m.", "p.m."]
TOK = re.compile(r"\d+|[^\W\d_]+(?:[.'’\-][^\W\d_]+)*\.?")
REL = {
    "en": re.compile(r"^(?:(?P<z>today)|(?P<p1>tomorrow)|(?P<m1>yesterday)|last (?P<last>\w+)|in (?P<inn>\d+) days?"
                     r"|(?P<ago>\d+) days? ago|next (?P<next>\w+)|(?P<bare>\w+))(?= |$)"),
    "fr": re.compile(r"^(?:(?P<z>aujourd'hui)|(?P<p2>après-demain)|(?P<p1>demain)|(?P<m2>avant-hier)|(?P<m1>hier)"
                     r"|il y a (?P<ago>\d+) jours?|dans (?P<inn>\d+) jours?|(?P<last>\w+) dernier|(?P<next>\w+) prochain)(?= |$)"),
}

# ------------------------------------------------------------------------------------------- the real library

_P = {}


DEFAULT_FMTRE = r"(.*?)\[(.+?)]|(.+$)"


def setup():
    """imports the real pyrealb once per process tree; counts calls of Constituent.warn"""
    if _P.get("ready"):
        return _P
    core.ensure_repo_on_path()
    import pyrealb
    from pyrealb.Constituent import Constituent
    _P["py"] = pyrealb
    _P["warns"] = 0
    if not getattr(Constituent.warn, "_c17_counting", False):
        orig = Constituent.warn

        def counting_warn(self, *a):
            _P["warns"] += 1
            return orig(self, *a)
        counting_warn._c17_counting = True
        Constituent.warn = counting_warn
    _P["Constituent"] = Constituent
    try:
        from harness.translate import date as tdate
        pat = tdate.lift_python()["fmtRE"]
    except Exception as e:  # noqa  (a TranslateError is already a broken tie; the oracle does not need the pattern)
        pat = DEFAULT_FMTRE
        _P["fmtRE_fallback"] = "%s: %s" % (type(e).__name__, str(e)[:200])
    _P["fmtRE"] = re.compile(pat)
    _P["ready"] = True
    return _P


def quiet(fn):
    """runs fn() with stderr captured; returns (result | exception name, warnings)"""
    P = setup()
    P["warns"] = 0
    old = sys.stderr
    sys.stderr = io.StringIO()
    try:
        try:
            return {"r": fn()}, P["warns"]
        except core.Infra:
            raise
        except Exception as e:  # noqa
            return {"err": type(e).__name__}, P["warns"]
    finally:
        sys.stderr = old


def iso(v, sep="T"):
    return "%04d-%02d-%02d%s%02d:%02d:%02d" % (v[0], v[1], v[2], sep, v[3], v[4], v[5])


def impl_date(line):
    """route bits: 1 lemma as ISO string, 2 rtime as ISO string, 4 nat through .nat(), 8 'T' separator,
    16 built with an explicit lang= while the OTHER language is current (and realized there),
    32 built while its language is current, realized after switching to the other language"""
    P = setup()
    py = P["py"]
    same, other = (py.loadEn, py.loadFr) if line["lang"] == "en" else (py.loadFr, py.loadEn)
    route = line.get("route", 0)
    f = line["f"]
    opts = {name: bool((f >> i) & 1) for i, name in enumerate(FIELDS)}
    opts["det"] = line["det"]
    if line.get("rt") is not None:
        opts["rtime"] = iso(line["rt"], " ") if route & 2 else datetime.datetime(*line["rt"])
    if not route & 4:
        opts["nat"] = line["nat"]
    lemma = iso(line["dt"], "T" if route & 8 else " ") if route & 1 else datetime.datetime(*line["dt"])

    def go():
        if route & 16:
            other()
            t = py.DT(lemma, lang=line["lang"]).dOpt(opts)
        else:
            same()
            t = py.DT(lemma).dOpt(opts)
        if route & 4:
            t = t.nat(line["nat"])
        if route & 32:
            other()
        return t.realize()
    ans, w = quiet(go)
    if w:
        ans["w"] = w
    return ans


def hist_states(line):
    """the option state (as a `date` line) at each realize step of a well-formed history, tracked by the harness"""
    st = {"f": 127, "nat": True, "det": True, "rt": None}
    out = []
    for step in line["steps"]:
        if step[0] == "realize":
            out.append({"op": "date", "lang": line["lang"], "dt": line["lemma"]["dt"], "f": st["f"], "nat": st["nat"],
                        "det": st["det"], "rt": st["rt"], "route": 0})
        elif step[0] == "nat":
            st["nat"] = step[1]
        else:
            for k, v in step[1]:
                if k in FIELDS:
                    st["f"] = (st["f"] | (1 << FIELDS.index(k))) if v else (st["f"] & ~(1 << FIELDS.index(k)))
                elif k == "rtime":
                    st["rt"] = None if v is False else v["dt"]
                else:
                    st[k] = v
    return out


def impl_hist(line):
    """one DT object; `realize` steps are d.realize() or (via[i] == 1) the realization of ONE sentence S(Q("k"), d)
    built at the first such step and realized again at the later ones; the date text is what the sentence shows
    after its first word"""
    P = setup()
    py = P["py"]
    same, other = (py.loadEn, py.loadFr) if line["lang"] == "en" else (py.loadFr, py.loadEn)
    outs = []
    P["warns"] = 0
    old = sys.stderr
    sys.stderr = io.StringIO()
    try:
        same()
        d = py.DT(pyval(line["lemma"]))
        sent = [None]
        ri = 0
        for step in line["steps"]:
            try:
                if step[0] == "nat":
                    d.nat(pyval(step[1]))
                elif step[0] == "dOpt":
                    d.dOpt({k: pyval(v) for k, v in step[1]})
                else:
                    via = line["via"][ri]
                    ri += 1
                    if via == 2:
                        other()          # realized while the other language is current
                    if via == 1:
                        if sent[0] is None:
                            sent[0] = py.S(py.Q("k"), d)
                        x = sent[0].realize()
                        if not x.startswith("K"):
                            outs.append({"sentence": x})
                            continue
                        x = x[1:]
                        if x.startswith(" "):
                            x = x[1:]
                        if x.endswith(". "):
                            x = x[:-2]
                        outs.append({"r": x})
                    else:
                        outs.append({"r": d.realize()})
                    if via == 2:
                        same()
            except core.Infra:
                raise
            except Exception as e:  # noqa
                outs.append({"err": type(e).__name__})
                same()
    finally:
        sys.stderr = old
    return {"outs": outs, "w": P["warns"]}


def pyval(v):
    if isinstance(v, bool):
        return v
    if "s" in v:
        return v["s"]
    if "dt" in v:
        return datetime.datetime(*v["dt"])
    return v["x"]


def impl_api(line):
    P = setup()
    py = P["py"]
    (py.loadEn if line["lang"] == "en" else py.loadFr)()

    def go():
        t = py.DT(None if line["lemma"] is None else pyval(line["lemma"]))
        for name, arg in line["calls"]:
            if name == "nat":
                t = t.nat(pyval(arg))
            elif arg is None:
                t = t.dOpt(["not", "a", "dict"])
            else:
                t = t.dOpt({k: pyval(v) for k, v in arg})
        return t.realize()
    ans, w = quiet(go)
    ans["w"] = w
    return ans


def impl_cal(line):
    y, m, d = line["y"], line["m"], line["d"]
    try:
        x = datetime.date(y, m, d)
    except ValueError:
        return {"valid": False}
    res = {"valid": True, "ord": x.toordinal(), "wd": x.weekday()}
    if x < datetime.date.max:
        n = x + datetime.timedelta(days=1)
        res["next"] = [n.year, n.month, n.day]
    return res


def impl_scan(line):
    P = setup()
    return {"m": [[m[3], None] if m[1] is None else [m[1], m[2]] for m in P["fmtRE"].finditer(line["fmt"])]}


def impl_parse(line):
    P = setup()
    py = P["py"]
    py.loadEn()
    t = py.DT(datetime.datetime(*CANON))
    ans, w = quiet(lambda: t.parseDateString(line["s"]))
    if "err" in ans:
        return ans
    if w:
        return {"dt": None}
    x = ans["r"]
    return {"dt": [x.year, x.month, x.day, x.hour, x.minute, x.second]}


def impl_cells(line):
    P = setup()
    py = P["py"]
    from pyrealb.Lexicon import getRules
    (py.loadEn if line["lang"] == "en" else py.loadFr)()
    fm = getRules(line["lang"])["date"]["format"]
    cells = []
    for tab in ("natural", "non_natural"):
        for k, v in fm[tab].items():
            cells.append({"table": tab, "key": k, "fmt": v, "ph": [m[2] for m in P["fmtRE"].finditer(v) if m[1] is not None]})
    return {"cells": cells}


IMPL = {"date": impl_date, "api": impl_api, "hist": impl_hist, "cal": impl_cal, "scan": impl_scan, "parse": impl_parse, "cells": impl_cells}


def model_view(line, m, a):
    """canonical forms compared: (model', impl')"""
    op = line["op"]
    if op == "cal":
        if not m.get("valid"):
            return {"valid": False}, a
        m2 = {"valid": True, "ord": m["ord"], "wd": m["wd"]}
        if "next" in a:
            m2["next"] = m["next"]
        return m2, a
    if op == "api" and m.get("today"):
        return {"w": m["w"]}, {"w": a.get("w")}
    return m, a


# ------------------------------------------------------------------------------------------- the direct oracle

def date_key(f):
    return "-".join(n for i, n in enumerate(FIELDS[:4]) if (f >> i) & 1)


def time_key(f):
    return ":".join(n for i, n in enumerate(FIELDS[4:]) if (f >> (i + 4)) & 1)


def check_text(line, text):
    """the property on one output: list of (kind, detail)"""
    lang = line["lang"]
    y, mo, d, h, mi, s = line["dt"]
    f = line["f"]
    day = datetime.date(y, mo, d)
    errs = []
    rest = text
    sel = {n for i, n in enumerate(FIELDS) if (f >> i) & 1}
    if line.get("rt") is not None:
        ref = datetime.date(*line["rt"][:3])
        diff = (day - ref).days
        m = REL[lang].match(text)
        if m is None:
            return [("relative", "no relative wording at the start of %r" % text)]
        g = m.groupdict()
        den = None
        if g.get("z"):
            den = 0
        elif g.get("p1"):
            den = 1
        elif g.get("p2"):
            den = 2
        elif g.get("m1"):
            den = -1
        elif g.get("m2"):
            den = -2
        elif g.get("inn"):
            den = int(g["inn"])
        elif g.get("ago"):
            den = -int(g["ago"])
        else:
            name = g.get("last") or g.get("next") or g.get("bare")
            if name not in WD[lang]:
                return [("relative", "unknown relative wording %r" % m.group(0))]
            w = WD[lang].index(name)
            rng_ = range(-7, 0) if g.get("last") else range(1, 8)
            den = [k for k in rng_ if (ref + datetime.timedelta(days=k)).weekday() == w][0]
        if den != diff:
            errs.append(("relative", "%r denotes %+d days, the difference is %+d" % (m.group(0), den, diff)))
        rest = text[m.end():]
        sel -= {"year", "month", "date", "day"}
    toks = TOK.findall(rest)
    left = TOK.sub("", rest).strip(" ,/:")
    if left:
        errs.append(("garbage", "unexpected characters %r" % left))
    nums = sorted(int(t) for t in toks if t.isdigit())
    words = [t for t in toks if not t.isdigit()]
    wds = [w for w in words if w in WD[lang]]
    mos = [w for w in words if w in MO[lang]]
    mers = [w for w in words if w in MER]
    nms = [w for w in words if w in NM[lang]]
    other = [w for w in words if w not in WD[lang] and w not in MO[lang] and w not in MER and w not in NM[lang]
             and w not in FILL[lang]]
    if other:
        errs.append(("garbage", "unexpected words %r" % other))
    want_wd = [WD[lang][day.weekday()]] if "day" in sel else []
    if wds != want_wd:
        errs.append(("weekday", "weekday names %r, expected %r" % (wds, want_wd)))
    base = []
    if "year" in sel:
        base.append(y)
    if "date" in sel:
        base.append(d)
    if "month" in sel:
        if mos:
            if mos != [MO[lang][mo]]:
                errs.append(("month-name", "month names %r, expected %r" % (mos, [MO[lang][mo]])))
        else:
            base.append(mo)
    elif mos:
        errs.append(("month-name", "month name %r although month is not selected" % mos))
    H, Mi, S = "hour" in sel, "minute" in sel, "second" in sel
    want_mer = []
    if nms:
        ok = len(nms) == 1 and H and h == NM[lang][nms[0]] and mi == 0 and (s == 0 or not S)
        if not ok:
            errs.append(("noon-midnight", "%r at %02d:%02d:%02d (hour selected: %s)" % (nms, h, mi, s, H)))
        alts = [[]]
    else:
        hv = ((h % 12) or 12) if lang == "en" else h
        full = ([hv] if H else []) + ([mi] if Mi else []) + ([s] if S else [])
        alts = [full]
        if line["nat"] and H:
            if S and s == 0:
                alts.append(([hv]) + ([mi] if Mi else []))
            if Mi and mi == 0 and (not S or s == 0):
                alts.append([hv])
        if lang == "en" and H:
            want_mer = [MER[0] if h < 12 else MER[1]]
    if mers != want_mer:
        errs.append(("meridiem", "meridiem %r, expected %r at hour %d" % (mers, want_mer, h)))
    if not any(nums == sorted(base + a) for a in alts):
        errs.append(("numbers", "numbers %r, expected %r" % (nums, [sorted(base + a) for a in alts])))
    elif not any(k == "month-name" for k, _ in errs):
        # positional reading (the language's convention): English month, day-of-month, year; French day-of-month,
        # month, year; then hour, minute, second.  The month slot is a name or a number.
        seq = [("M", MO[lang].index(t)) if t in MO[lang] else ("n", int(t)) for t in toks if t.isdigit() or t in MO[lang]]
        mslot = [("M", mo) if mos else ("n", mo)] if "month" in sel else []
        dslot = [("n", d)] if "date" in sel else []
        yslot = [("n", y)] if "year" in sel else []
        dseq = (mslot + dslot + yslot) if lang == "en" else (dslot + mslot + yslot)
        if not any(seq == dseq + [("n", v) for v in a] for a in alts):
            def show(q):
                return " ".join(MO[lang][v] if k == "M" else str(v) for k, v in q)
            reading = ""
            nd = len(dseq)
            if dslot and mslot and len(seq) >= nd and all(k == "n" for k, _ in seq[:nd]):
                names = (["month", "day"] if lang == "en" else ["day", "month"]) + (["year"] if yslot else [])
                reading = "; read by the %s convention: %s" % (
                    "English month/day" if lang == "en" else "French day/month",
                    ", ".join("%s %d" % (n, v) for n, (_, v) in zip(names, seq[:nd])))
            errs.append(("order", "fields printed in the order %r, the %s order is %r (date %04d-%02d-%02d, time %02d:%02d:%02d)%s"
                         % (show(seq), "English" if lang == "en" else "French", show(dseq + [("n", v) for v in alts[0]]),
                            y, mo, d, h, mi, s, reading)))
    return errs


def kinds_of(line, ans):
    if "err" in ans:
        return [("crash:" + ans["err"], ans["err"])]
    if "w" in ans:
        return [("warning", "%d warnings on a well-formed call" % ans["w"])]
    return check_text(line, ans["r"])


def still(line, kind):
    return any(k == kind for k, _ in kinds_of(line, impl_date(line)))


def shrink(line, kind):
    """-> list of shrunk lines (two when the date part and the time part both fail on their own)"""
    cur = dict(line)
    cur["route"] = 0

    def attempt(c, mod):
        n = dict(c)
        n.update(mod)
        if still(n, kind):
            c.update(mod)
            return True
        return False
    if not still(cur, kind):          # route dependent: keep only the route bits the failure needs
        cur["route"] = line.get("route", 0)
        for bit in (1, 2, 4, 8, 32, 16):
            if cur["route"] & bit:
                attempt(cur, {"route": cur["route"] & ~bit})
    if cur.get("rt") is not None:
        attempt(cur, {"f": cur["f"] & 112})      # with rtime the date fields play no role
        attempt(cur, {"rt": None})
    f = cur["f"]
    starts = []
    for part in (f & 15, f & 112):
        if part != f:
            c = dict(cur)
            if attempt(c, {"f": part}):
                starts.append(c)
    if not starts:
        starts = [cur]
    res = []
    for c in starts:
        for _ in range(2):
            if c.get("rt") is not None:
                diff = (datetime.date(*c["dt"][:3]) - datetime.date(*c["rt"][:3])).days
                try:
                    nr = datetime.date(*CANON[:3]) - datetime.timedelta(days=diff)
                    attempt(c, {"dt": CANON[:3] + c["dt"][3:], "rt": [nr.year, nr.month, nr.day, 0, 0, 0]})
                except OverflowError:
                    pass
            else:
                attempt(c, {"dt": CANON[:3] + c["dt"][3:]})
            for i in (3, 4, 5):
                v = list(c["dt"])
                v[i] = CANON[i]
                attempt(c, {"dt": v})
        attempt(c, {"nat": True})
        attempt(c, {"det": True})
        res.append(c)
    return res


def signature(kind, c):
    tags = [kind, "lang=" + c["lang"]]
    if not c["nat"]:
        tags.append("nat=0")
    if not c["det"]:
        tags.append("det=0")
    f = c["f"]
    if c.get("rt") is not None:
        diff = (datetime.date(*c["dt"][:3]) - datetime.date(*c["rt"][:3])).days
        tags.append("rtime-diff=%s" % (diff if abs(diff) <= 7 else ("<-7" if diff < 0 else ">7")))
    elif f & 15:
        tags.append("fields=" + date_key(f))
    if f & 112:
        tags.append("time=" + time_key(f))
    y, mo, d, h, mi, s = c["dt"]
    if [y, mo, d] != CANON[:3] and c.get("rt") is None:
        tags.append("date:weekday=%d,month=%d,leap=%d" % (datetime.date(y, mo, d).weekday(), mo,
                                                          int(y % 4 == 0 and (y % 100 != 0 or y % 400 == 0))))
    if h != CANON[3]:
        tags.append("hour=%s" % (h if h in (0, 12) else ("1..11" if h < 12 else "13..23")))
    if mi != CANON[4]:
        tags.append("minute=0" if mi == 0 else "minute>0")
    if s != CANON[5]:
        tags.append("second=0" if s == 0 else "second>0")
    if c.get("route"):
        tags.append("route=%d" % c["route"])
    return " ".join(tags)


_SIGCACHE = {}


def signatures(line, kind):
    """[(signature, shrunk line)]"""
    key = None
    if kind.startswith("crash:"):
        y, mo, d, h, mi, s = line["dt"]
        rt = line.get("rt")
        dc = None
        if rt is not None:
            diff = (datetime.date(y, mo, d) - datetime.date(*rt[:3])).days
            dc = diff if abs(diff) <= 7 else (-8 if diff < 0 else 8)
        key = (kind, line["lang"], line["nat"], line["det"], line["f"], h, mi == 0, s == 0, dc, line.get("route", 0))
        if key in _SIGCACHE:
            return _SIGCACHE[key]
    res = [(signature(kind, c), c) for c in shrink(line, kind)]
    if key is not None:
        _SIGCACHE[key] = res
    return res


# ------------------------------------------------------------------------------------------- generation

def leap(y):
    return y % 4 == 0 and (y % 100 != 0 or y % 400 == 0)


def dim(y, m):
    return [31, 29 if leap(y) else 28, 31, 30, 31, 30, 31, 31, 30, 31, 30, 31][m - 1]


def boundary_dates(years, months_too):
    out = []
    for y in years:
        out += [(y, 1, 1), (y, 2, 28), (y, 3, 1), (y, 12, 31)]
        if leap(y):
            out.append((y, 2, 29))
        if months_too:
            for m in range(1, 13):
                out += [(y, m, dim(y, m)), (y, m, 1), (y, m, 15)]
    return sorted(set(out))


def rand_date(rng, lo=1900, hi=2100):
    y = rng.randint(lo, hi)
    m = rng.randint(1, 12)
    return (y, m, rng.randint(1, dim(y, m)))


def time_class(rng, h, c):
    """c: 0 -> m=0,s=0 ; 1 -> m=0,s>0 ; 2 -> m>0,s=0 ; 3 -> m>0,s>0"""
    m = 0 if c in (0, 1) else rng.randint(1, 59)
    s = 0 if c in (0, 2) else rng.randint(1, 59)
    return (h, m, s)


def mk(lang, date, time, f, nat, det, rt, route):
    return {"op": "date", "lang": lang, "dt": list(date) + list(time), "f": f, "nat": nat, "det": det,
            "rt": None if rt is None else list(rt), "route": route}


def shift(date, k):
    x = datetime.date(*date) + datetime.timedelta(days=k)
    return (x.year, x.month, x.day)


def gen_block(kind, params, seed):
    rng = random.Random(seed)
    L = []
    if kind == "hours":          # all 2^7 subsets x nat x det x langs x 4 zero classes, for the given hours and dates
        hours, dates = params
        for h in hours:
            for c in range(4):
                for date in dates:
                    t = time_class(rng, h, c)
                    for f in range(128):
                        for nat in (True, False):
                            for det in (True, False):
                                for lang in ("en", "fr"):
                                    L.append(mk(lang, date, t, f, nat, det, None, rng.choice((0, 0, 1, 4, 5, 9))))
    elif kind == "dates":        # every date subset x nat x det x langs on boundary dates
        dates, dets = params
        for date in dates:
            t = (rng.randint(0, 23), rng.randint(0, 59), rng.randint(0, 59))
            for fd in range(16):
                for nat in (True, False):
                    for det in dets:
                        for lang in ("en", "fr"):
                            L.append(mk(lang, date, t, fd | (rng.randrange(8) << 4), nat, det, None, rng.choice((0, 1, 4, 9))))
    elif kind == "rtime":        # offsets x reference days
        refs, offs, reps = params
        for ref in refs:
            for k in offs:
                date = shift(ref, k)
                for lang in ("en", "fr"):
                    for nat in (True, False):
                        for _ in range(reps):
                            t = (rng.randint(0, 23), rng.choice((0, rng.randint(0, 59))), rng.choice((0, rng.randint(0, 59))))
                            rt = tuple(ref) + (rng.randint(0, 23), rng.randint(0, 59), rng.randint(0, 59))
                            L.append(mk(lang, date, t, rng.randrange(128), nat, rng.random() < 0.8, rt, rng.choice((0, 1, 2, 3, 6))))
    elif kind == "random":
        n, pool = params
        for _ in range(n):
            date = rng.choice(pool) if rng.random() < 0.5 else rand_date(rng)
            h = rng.choice((0, 12, rng.randint(0, 23), rng.randint(0, 23)))
            t = time_class(rng, h, rng.randrange(4))
            rt = None
            if rng.random() < 0.25:
                k = rng.choice((rng.randint(-8, 8), rng.randint(-400, 400)))
                rt = shift(date, -k) + (rng.randint(0, 23), rng.randint(0, 59), rng.randint(0, 59))
            L.append(mk(rng.choice(("en", "fr")), date, t, rng.randrange(128), rng.random() < 0.5, rng.random() < 0.6, rt,
                        rng.randrange(16) | rng.choice((0, 0, 0, 16, 32))))
    elif kind == "api":
        for _ in range(params):
            L.append(gen_api(rng))
    elif kind == "hist":
        for _ in range(params):
            L.append(gen_hist(rng))
    elif kind == "lang":     # explicit lang= under the other current language / built then switched
        n, pool = params
        for _ in range(n):
            date = rng.choice(pool) if rng.random() < 0.5 else rand_date(rng)
            t = time_class(rng, rng.choice((0, 12, rng.randint(0, 23))), rng.randrange(4))
            rt = None
            if rng.random() < 0.3:
                rt = shift(date, -rng.choice((rng.randint(-8, 8), rng.randint(-400, 400)))) + (rng.randint(0, 23), 0, 0)
            f = rng.choice((127, 127, 15, 112, rng.randrange(128)))
            L.append(mk(rng.choice(("en", "fr")), date, t, f, rng.random() < 0.6, rng.random() < 0.7, rt,
                        rng.choice((16, 32)) | rng.randrange(16)))
    elif kind == "cal":
        mode, arg = params
        if mode == "range":
            a, n = arg
            x = datetime.date(*a)
            for i in range(n):
                y = x + datetime.timedelta(days=i)
                L.append({"op": "cal", "y": y.year, "m": y.month, "d": y.day})
        else:
            for _ in range(arg):
                y = rng.choice((rng.randint(1, 9999), rng.randint(1, 9999), rng.choice((1, 4, 100, 400, 1900, 2000, 2100, 9999, 0, 10000))))
                m = rng.choice((rng.randint(1, 12), rng.randint(1, 12), 2, 12, 0, 13))
                d = rng.choice((rng.randint(1, 28), 28, 29, 30, 31, 32, 0, 1))
                L.append({"op": "cal", "y": y, "m": m, "d": d})
    elif kind == "scan":
        for _ in range(params):
            n = rng.randint(0, 12)
            L.append({"op": "scan", "fmt": "".join(rng.choice("[[]]ab ,:") for _ in range(n))})
    elif kind == "parse":
        for _ in range(params):
            L.append({"op": "parse", "s": gen_iso(rng)})
    elif kind == "cells":
        L += [{"op": "cells", "lang": "en"}, {"op": "cells", "lang": "fr"}]
    return L


def gen_iso(rng):
    r = rng.random()
    date = rand_date(rng, 1, 9999) if rng.random() < 0.3 else rand_date(rng)
    v = list(date) + [rng.randint(0, 23), rng.randint(0, 59), rng.randint(0, 59)]
    if r < 0.45:
        x = iso(v, rng.choice("T "))
        if rng.random() < 0.3:
            x = x[:10]
        return x
    if r < 0.7:    # invalid value
        i = rng.randrange(6)
        v[i] = rng.choice({0: [0], 1: [0, 13, 99], 2: [0, 30, 31, 32, 29], 3: [24, 99], 4: [60, 99], 5: [60, 61]}[i])
        return iso(v, rng.choice("T "))
    x = list(iso(v, rng.choice("T _t")))
    for _ in range(rng.randint(1, 2)):   # syntax damage
        k = rng.random()
        i = rng.randrange(len(x) + 1)
        if k < 0.4 and i < len(x):
            x[i] = rng.choice("0-:T x/.")
        elif k < 0.7 and i < len(x):
            del x[i]
        else:
            x.insert(i, rng.choice("0-:T xZ+"))
    if rng.random() < 0.2:
        x += list(rng.choice(["Z", ".123", "+01:00", " x"]))
    return "".join(x)


def gen_val(rng, kind):
    if kind == "bool":
        return rng.random() < 0.5
    if kind == "str":
        return {"s": gen_iso(rng)}
    if kind == "dt":
        return {"dt": list(rand_date(rng)) + [rng.randint(0, 23), rng.randint(0, 59), rng.randint(0, 59)]}
    return {"x": rng.choice([1, 0, None, [1], 2.5])}


def gen_hist(rng):
    """well-formed option history on one DT with realizations in between"""
    dt = list(rand_date(rng)) + list(time_class(rng, rng.choice((0, 12, rng.randint(0, 23))), rng.randrange(4)))
    steps, via = [], []
    if rng.random() < 0.8:
        steps.append(["realize"])
        via.append(rng.choice((0, 0, 1, 2)))
    for _ in range(rng.randint(1, 4)):
        r = rng.random()
        if r < 0.2:
            steps.append(["nat", rng.random() < 0.5])
        else:
            items = []
            for k in rng.sample(FIELDS + ["det", "nat", "rtime"], rng.randint(1, 4)):
                if k == "rtime":
                    if rng.random() < 0.4:
                        v = False
                    else:
                        d = shift(dt[:3], -rng.choice((rng.randint(-8, 8), rng.randint(-60, 60))))
                        v = {"dt": list(d) + [rng.randint(0, 23), 0, 0]}
                else:
                    v = rng.random() < 0.5
                items.append([k, v])
            steps.append(["dOpt", items])
        if rng.random() < 0.75:
            steps.append(["realize"])
            via.append(rng.choice((0, 0, 1, 1, 2)))
    if steps[-1][0] != "realize":
        steps.append(["realize"])
        via.append(rng.choice((0, 1)))
    return {"op": "hist", "lang": rng.choice(("en", "fr")), "lemma": {"dt": dt}, "steps": steps, "via": via}


def gen_api(rng):
    r = rng.random()
    if r < 0.5:
        lemma = gen_val(rng, "dt")
    elif r < 0.85:
        lemma = {"s": gen_iso(rng)} if rng.random() < 0.6 else {"s": iso(list(rand_date(rng)) + [rng.choice((0, 12, 15)), rng.choice((0, 7)), rng.choice((0, 9))])}
    elif r < 0.9:
        lemma = None
    elif r < 0.95:
        lemma = {"s": ""}
    else:
        lemma = {"x": rng.choice([5, 2.5, [2024, 1, 1]])}
    calls = []
    for _ in range(rng.choice((0, 1, 1, 1, 2, 2, 3))):
        if rng.random() < 0.25:
            calls.append(["nat", gen_val(rng, rng.choice(("bool", "bool", "bool", "other", "str")))])
            continue
        if rng.random() < 0.05:
            calls.append(["dOpt", None])
            continue
        keys = rng.sample(FIELDS + ["nat", "det", "rtime", "rtime", "foo", "years", "Hour"], rng.randint(0, 6))
        items = []
        seen = set()
        for k in keys:
            if k in seen:
                continue
            seen.add(k)
            if k == "rtime":
                v = gen_val(rng, rng.choice(("dt", "dt", "str", "bool", "other")))
                if v is True and rng.random() < 0.7:
                    v = False
            else:
                v = gen_val(rng, rng.choice(("bool",) * 8 + ("other", "str")))
            items.append([k, v])
        calls.append(["dOpt", items])
    return {"op": "api", "lang": rng.choice(("en", "fr")), "lemma": lemma, "calls": calls}


def build_blocks(ctx, deep=False):
    rng = ctx.rng
    big = ctx.tier == "thorough" or deep
    B = []

    def add(kind, params):
        B.append((kind, params, rng.getrandbits(48)))
    fixed_dates = [(2024, 2, 29), (2015, 7, 23), (1900, 2, 28), (2100, 12, 31), (2000, 1, 1), (1999, 12, 31)]
    pool = boundary_dates([1900, 1999, 2000, 2001, 2024, 2100], True)
    add("cells", None)
    if big:
        for h in range(24):
            add("hours", ([h], fixed_dates))
        years = list(range(1900, 2101))
        bd = boundary_dates(years, False) + boundary_dates([1900, 1996, 2000, 2023, 2024, 2100], True)
        bd = sorted(set(bd))
        for i in range(0, len(bd), 60):
            add("dates", (bd[i:i + 60], (True, False)))
        refs = [(2015, 1, 1), (2024, 2, 29), (2024, 3, 1), (2000, 12, 31), (1900, 3, 1), (2100, 2, 28), (2023, 7, 16),
                (2023, 7, 17), (2023, 7, 19), (2023, 7, 21), (2023, 7, 22), (2096, 2, 29)]
        for ref in refs:
            add("rtime", ([ref], list(range(-400, 401)), 2))
        for _ in range(32):
            add("random", (12500, pool))
        for _ in range(4):
            add("api", 5000)
        for _ in range(8):
            add("hist", 5000)
        for _ in range(8):
            add("lang", (10000, pool))
        add("cal", ("range", ((1899, 12, 25), 36800)))
        add("cal", ("range", ((2000, 9, 25), 36700)))
        add("cal", ("range", ((1, 1, 1), 1500)))
        add("cal", ("range", ((9995, 1, 1), 1826)))
        add("cal", ("random", 30000))
        add("scan", 30000)
        add("parse", 30000)
    else:
        # all 2^7 subsets x nat x det x langs on 24 hours (one seeded zero class and date each) ...
        for h in range(0, 24, 4):
            for hh in range(h, h + 4):
                B.append(("hours1", (hh, rng.randrange(4), rng.choice(fixed_dates + pool)), rng.getrandbits(48)))
        # ... and every hour x zero class x time subset
        add("timesub", None)
        bd = boundary_dates([1900, 2000, 2024, 2100, rng.randint(1901, 2099)], False) + rng.sample(pool, 60)
        for i in range(0, len(bd), 20):
            add("dates", (bd[i:i + 20], (True,)))
        refs = [(2024, 2, 29), (2015, 1, 1)] + [rand_date(rng) for _ in range(4)]
        offs = list(range(-15, 16)) + sorted(rng.sample(list(range(-400, -15)) + list(range(16, 401)), 90))
        for ref in refs:
            add("rtime", ([ref], offs, 1))
        for _ in range(8):
            add("random", (2000, pool))
        add("api", 3000)
        add("hist", 2000)
        add("lang", (4000, pool))
        add("cal", ("range", (rand_date(rng, 1900, 2090), 1500)))
        add("cal", ("range", ((rng.choice((1900, 2000, 2024, 2100)), 2, 20), 20)))
        add("cal", ("random", 2000))
        add("scan", 2500)
        add("parse", 2500)
    return B


def gen_block_ext(kind, params, seed):
    if kind == "hours1":
        h, c, date = params
        rng = random.Random(seed)
        t = time_class(rng, h, c)
        L = []
        for f in range(128):
            for nat in (True, False):
                for det in (True, False):
                    for lang in ("en", "fr"):
                        L.append(mk(lang, date, t, f, nat, det, None, rng.choice((0, 0, 1, 4, 5, 9))))
        return L
    if kind == "timesub":
        rng = random.Random(seed)
        L = []
        for h in range(24):
            for c in range(4):
                t = time_class(rng, h, c)
                for ft in range(8):
                    for nat in (True, False):
                        for det in (True, False):
                            for lang in ("en", "fr"):
                                L.append(mk(lang, CANON[:3], t, ft << 4, nat, det, None, 0))
        return L
    return gen_block(kind, params, seed)


# ------------------------------------------------------------------------------------------- one block

def run_lines(lines):
    """model answers of the driver for these lines (the model does not see `route`)"""
    sent = [{k: v for k, v in l.items() if k not in ("route", "via")} for l in lines]
    for attempt in range(6):
        try:
            return core.run_driver(sent, META["driver"])
        except (core.Infra, OSError) as e:   # the executable is briefly absent while a concurrent lake build relinks it
            if "not built" not in str(e) and not isinstance(e, OSError) or attempt == 5:
                raise
            import time
            time.sleep(5)


def work(block):
    kind, params, seed = block
    lines = gen_block_ext(kind, params, seed)
    if _ORACLE_ONLY:
        lines = [l for l in lines if l["op"] == "date"]
        model = [None] * len(lines)
    else:
        model = run_lines(lines)
    out = {"n": len(lines), "diffs": [], "fails": {}, "digests": [], "dist": {}, "samples": [], "kind": kind,
           "trivial": 0, "nfail": 0}
    dist = out["dist"]
    for l, m in zip(lines, model):
        if m is not None and "driver_error" in m:
            raise core.Infra("driver error: %s on %s" % (m["driver_error"], core.canon(l)[:200]))
        op = l["op"]
        a = IMPL[op](l)
        m2, a2 = model_view(l, m, a) if m is not None else (None, None)
        if m is not None and core.canon(m2) != core.canon(a2):
            if len(out["diffs"]) < 20:
                out["diffs"].append({"line": l, "model": m2, "impl": a2})
            dist["diffs"] = dist.get("diffs", 0) + 1
        trivial = (op == "date" and l["f"] == 0 and l["rt"] is None) or (op == "scan" and "[" not in l["fmt"])
        if trivial:
            out["trivial"] += 1
        else:
            out["digests"].append(hashlib.md5(core.canon([{k: v for k, v in l.items() if k not in ("route", "via")}, a]).encode()).digest())
        if len(out["samples"]) < 1:
            out["samples"].append((l, a))
        if op == "date":
            tag = "date:%s:%s:%s" % (l["lang"], "nat" if l["nat"] else "num", "rtime" if l["rt"] is not None else "abs")
            dist[tag] = dist.get(tag, 0) + 1
            res = "crash:" + a["err"] if "err" in a else "text"
            dist["out:" + res] = dist.get("out:" + res, 0) + 1
            for k, detail in kinds_of(l, a):
                out["nfail"] += 1
                for sig, c in signatures(l, k):
                    e = out["fails"].get(sig)
                    if e is None:
                        dd = [x for kk, x in kinds_of(c, impl_date(c)) if kk == k]
                        out["fails"][sig] = {"n": 1, "input": c, "detail": dd[0] if dd else detail, "first_seen": l}
                    else:
                        e["n"] += 1
        elif op == "hist":
            dist[op] = dist.get(op, 0) + 1
            dist["hist:realizations"] = dist.get("hist:realizations", 0) + len(a["outs"])
            # direct oracle: each realization = that of a fresh DT with the option state of that moment
            states = hist_states(l)
            for i, (stt, got) in enumerate(zip(states, a["outs"])):
                fresh = impl_date(stt)
                fresh.pop("w", None)
                if core.canon(fresh) != core.canon(got):
                    via = ("standalone", "in-sentence", "other-language-current")[l["via"][i]]
                    sig = "history lang=%s realization#%s %s" % (l["lang"], "1" if i == 0 else ">1", via)
                    out["nfail"] += 1
                    e = out["fails"].get(sig)
                    detail = "realization %d of the history gives %s; a fresh DT with the options of that moment gives %s" % (
                        i + 1, core.canon(got), core.canon(fresh))
                    if e is None or len(core.canon(l)) < len(core.canon(e["input"])):
                        out["fails"][sig] = {"n": (e["n"] if e else 0) + 1, "input": l, "detail": detail, "first_seen": l}
                    else:
                        e["n"] += 1
                    break
        else:
            dist[op] = dist.get(op, 0) + 1
            if op == "api":
                r = "today" if (m or {}).get("today") else ("crash" if "err" in a else "text")
                dist["api:" + r + ":w%d" % min(a.get("w", 0), 3)] = dist.get("api:" + r + ":w%d" % min(a.get("w", 0), 3), 0) + 1
            if op == "cal" and a.get("valid"):
                dist["cal:valid"] = dist.get("cal:valid", 0) + 1
            if op == "parse" and a.get("dt"):
                dist["parse:ok"] = dist.get("parse:ok", 0) + 1
    out["digests"] = b"".join(out["digests"])
    return out


_ORACLE_ONLY = False


def run(ctx, deep=False):
    global _ORACLE_ONLY
    setup()
    _ORACLE_ONLY = not os.path.exists(os.path.join(core.BIN, META["driver"]))
    if _ORACLE_ONLY:
        ctx.notes["oracle_only"] = "model driver not available: the direct oracle alone ran on the real library"
    if _P.get("fmtRE_fallback"):
        ctx.notes["fmtRE_fallback"] = _P["fmtRE_fallback"]
    deep = deep or bool(getattr(ctx, "deep", False))   # a proof / the translator broke: thorough-size sweep at once
    blocks = build_blocks(ctx, deep)
    dist = {}
    fails = {}
    n = 0
    procs = min(16, os.cpu_count() or 1, max(1, len(blocks)))
    mpctx = multiprocessing.get_context("fork")
    with mpctx.Pool(procs) as pool:
        for out in pool.imap_unordered(work, blocks, chunksize=1):
            n += out["n"]
            for l, a in out["samples"]:
                ctx.count(l, a, trivial=True)
            ctx.cov["evaluations"] += out["n"] - len(out["samples"])
            ctx.cov["traces_validated_against_impl"] += out["n"]
            dg = out["digests"]
            for i in range(0, len(dg), 16):
                ctx.distinct.add(dg[i:i + 16])
            for d in out["diffs"]:
                ctx.diff(d["line"], d["model"], d["impl"])
            for k, v in out["dist"].items():
                dist[k] = dist.get(k, 0) + v
            for sig, e in out["fails"].items():
                o = fails.get(sig)
                if o is None:
                    fails[sig] = e
                else:
                    o["n"] += e["n"]
                    if len(core.canon(e["input"])) < len(core.canon(o["input"])):
                        o["input"], o["detail"] = e["input"], e["detail"]
    for sig in sorted(fails):
        e = fails[sig]
        ctx.fail(sig, e["input"], "%s  [%d failing lines of this run have this signature; first seen on %s]"
                 % (e["detail"], e["n"], core.canon(e["first_seen"])))
        if hasattr(ctx, "fail_counts"):
            ctx.fail_counts[sig] = e["n"]      # lines of the sweep, not deduplicated calls
    ctx.notes["distribution"] = dict(sorted(dist.items()))
    ctx.notes["failing_lines_by_signature"] = {s: fails[s]["n"] for s in sorted(fails)}
    ctx.notes["blocks"] = len(blocks)
    big = ctx.tier == "thorough" or deep
    ctx.exhaustive = True
    ctx.notes["exhaustive_scope"] = (
        "both languages x nat x det x all 2^7 field subsets x 24 hours x 4 minute/second zero classes on 6 dates; all 16 date "
        "subsets x nat x det on Jan 1/Feb 28/Feb 29/Mar 1/Dec 31 of every year 1900-2100; rtime offsets -400..400 on 12 "
        "reference days; toordinal/weekday on every day 1899-12-25..2101-03-20"
        if big else
        "both languages x nat x det x all 2^7 field subsets on each of the 24 hours (one seeded zero class/date per hour); "
        "every hour x zero class x time subset x nat x det; every shipped format cell")


def search(ctx):
    """deeper search on the implementation when a proof or the correspondence broke: the thorough-size sweep"""
    run(ctx, deep=True)


def replay(path):
    d = json.load(open(path, encoding="utf-8"))
    line = d["input"]
    while isinstance(line, dict) and "op" not in line and "input" in line:
        line = line["input"]
    setup()
    a = IMPL[line["op"]](line)
    print("input :", core.canon(line))
    print("output:", core.canon(a))
    if line["op"] == "date":
        ks = kinds_of(line, a)
        for k, detail in ks:
            print("property violated [%s]: %s" % (k, detail))
        if not ks:
            print("the property holds on this input")
        return 1 if ks else 0
    if line["op"] == "hist":
        bad = 0
        for i, (stt, got) in enumerate(zip(hist_states(line), a["outs"])):
            fresh = impl_date(stt)
            fresh.pop("w", None)
            ok = core.canon(fresh) == core.canon(got)
            bad += not ok
            print("realization %d: %s   fresh DT with the options of that moment: %s   %s"
                  % (i + 1, core.canon(got), core.canon(fresh), "ok" if ok else "PROPERTY VIOLATED"))
        return 1 if bad else 0
    return 0
