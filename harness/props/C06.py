"""C06 — elision, contraction, euphony, a/an on every realized text.

Model: lean/Pyrealb/Model/Elision.lean (driver drv_surface) ; theorems: lean/Pyrealb/Props/C06.lean ;
tables re-lifted from the source on every run by harness/translate/elision.py.

Correspondence and oracle (three parts, all on the REAL pyrealb in-process, language set explicitly per line):
 (a) op `elide`: generated token lists (real Terminal objects whose realization carries punctuation, tags, capitals,
     `lier`, number) through the real ConstituentFr/En.doElision and through the model; ops `sep`, `anrule`;
 (b) sweep through the real API: every elidable / euphonic / contractable first word x every French lexicon form
     beginning with a vowel or h (keys of buildLemmataMap("fr")), a/an x every English noun/adjective form, checked
     by a direct oracle (the rule restated in Python with the lexicon's `h` flag) — complete in the thorough tier,
     stratified sample in the quick tier;
 (c) the real doElision and detokenize are wrapped from the harness while seed sentences (the expressions of
     /repo/tests/*.py) and generated NP/PP/S/dependency structures are realized: every captured call is replayed
     through the model, every final token list is tested for `Settled` (model op + Python oracle).
"""
import ast
import glob
import io
import json
import multiprocessing
import os
import re
import sys
import time

from harness import core
from harness.impl import capture as cap

META = {
    "ops": "elide,settled,hyps,sep",
    "driver": "drv_surface",
    "translators": ["elision", "punct", "clausefr"],
    "extra_modules": ["Pyrealb.Props.C06Models"],
    "extra_audits": ["C06Models"],
    "technique": "Lean 4 proof (induction over token lists, table facts by decide over the regenerated tables) + "
                 "differential correspondence on token lists, complete lexicon sweep, replay of captured real calls",
    "level_text": "Kernel-checked theorems for token lists of every length: the modelled doElision never raises on "
                  "well-formed tokens; under explicit side conditions (Tame: single-word contracted tokens, lower-case "
                  "à/de+le/les, no new contractable pair) one pass of the modelled doElision "
                  "leaves every adjacent pair settled; a settled list is a fixed point; the a/an rule is applied iff the "
                  "documented rule selects the next word; full-strength clauses that the unchanged code violates are "
                  "_refuted with concrete witnesses replayed on the real code. Tie: translator (tables, regex "
                  "alternatives lifted by AST) + differential run of the real doElision on generated token lists + every "
                  "real call captured while realizing sentences replayed through the model.",
    "level_note": "Trusted: Lean kernel; the hand-written model (tied by correspondence only); the translator; Python "
                  "re/str primitives on the recorded finite alphabet; the lexicon's aspirated-h answer is a token field "
                  "computed by the harness (harness/impl/capture.hflag) exactly as isElidableFr reads it. tree_settled is "
                  "proved for the abstract fold under PlaceOK/FormatOK/NodeTame hypotheses that are monitored on captured "
                  "calls, not proved of doPronounPlacement/doFormat.",
    "rule": "non-trivial = a line on which the real doElision rewrites at least one token (elision, euphony, contraction, "
            "a->an) or raises; sweep (b): first word x lexicon form realized through PP(F,X)/NP/S and compared with the "
            "rule restated in Python",
    "assumptions": ["A_alphabet: Python \\w, \\s, str.lower behave on the recorded finite alphabet as lifted into Gen/ElisionTables",
                    "A_hflag: harness/impl/capture.hflag reads the lexicon as isElidableFr does (checked by the sweep's direct oracle)"],
    "trusted": ["wrappers around ConstituentFr/En.doElision and Constituent.detokenize installed from the harness"],
}

# ------------------------------------------------------------------------------------------------------------
# the property restated in Python (independent of the Lean model and of the lifted tables)
# ------------------------------------------------------------------------------------------------------------
VOW = "aeiouyàâéèêëîïôöùü"
ELIDABLE = ["la", "le", "je", "me", "te", "se", "de", "ne", "que", "puisque", "lorsque", "jusque", "quoique"]
EUPH = {"ma": "mon", "ta": "ton", "sa": "son", "ce": "cet", "beau": "bel", "fou": "fol", "mou": "mol",
        "nouveau": "nouvel", "vieux": "vieil"}
EUPH_EXC = ["et", "ou", "où", "aujourd'hui"]
PREVOC_ONLY = ["cet", "bel", "fol", "mol", "nouvel", "vieil"]
ELIDED = [w[:-1] + "'" for w in ELIDABLE]
CONTR_FR = {"à+le": "au", "à+les": "aux", "ça+a": "ç'a", "de+le": "du", "de+les": "des", "de+des": "de",
            "de+autres": "d'autres", "des+autres": "d'autres", "si+il": "s'il", "si+ils": "s'ils"}
FLAGGED = {"F1", "F2", "F3p", "F4", "F5", "A1", "A2"}   # what the property text forbids (F3 = the rest of the table)


def an_rule(w):
    """the documented vowel-sound rule (ConstituentEn.py:85-92) restated"""
    l = w.lower()
    return bool(l[:1] in ("a", "i")
                or (l[:1] == "e" and not l.startswith("eu"))
                or (l[:1] == "o" and not re.match(r"onc?e", l))
                or (l[:1] == "u" and not re.match(r"uni|ub|use|usu|uv", l))
                or re.match(r"heir|herb|honest|honou?r|hour", l)
                or re.fullmatch(r"[A-Z]+", w))


LIGATURES = "œæ"     # vowels too: the code relies on Terminal.setLemma expanding them (œ -> oe) before elision


def model_vowels():
    """the vowel class the CODE tests (lifted by the translator; last recorded one when the tie is broken): used only
    where the Python statement is compared with the Lean `settled` op, never by the oracle"""
    if "model_vowels" not in _P:
        try:
            from harness.translate import elision
            _P["model_vowels"] = elision.extract()["vowelsFr"]
        except Exception:  # noqa
            _P["model_vowels"] = VOW
    return _P["model_vowels"]


def vm(w, h, lig=False):
    """begins with a vowel or a mute h (h = the lexicon's answer: "a" aspirated).  `lig`: œ/æ count as vowels (the
    property on the TEXT); without it the class is the one isElidableFr tests (comparison with the model)"""
    c = w[:1].lower()
    return c != "" and (c in (VOW + LIGATURES if lig else model_vowels())) or (c == "h" and h == "m")


def view(r):
    if not isinstance(r, str):
        return None
    m = cap.SEP.match(r)
    if m.group(2) is None:
        return None
    return m.group(1), m.group(2), m.group(3)


def no_words(rest):
    return not re.match(r"\s*\w", rest)


def pair_clauses(lang, t1, t2, w1_override=None, lig=False):
    """clauses of the property violated by two adjacent tokens (token facts); mirrors Lean pairOKFr / pairOKEn"""
    v1, v2 = view(t1["r"]), view(t2["r"])
    if v1 is None or v2 is None:
        return []
    w1, w2 = (w1_override or v1[1]), v2[1]
    bad = []
    if lang == "en":
        if t1.get("fr", False):
            return []           # the property speaks of the words of the text's own language (commit ab31145)
        if t1["ct"] == "D" and w1 in ("a", "A") and an_rule(w2):
            bad.append("A1")
        if t1["ct"] == "D" and w1 in ("an", "An") and not an_rule(w2):
            bad.append("A2")
        return bad
    if not t1.get("fr", True):
        return []
    if w1_override is None and not no_words(v1[2]):
        return []
    fr2 = t2.get("fr", True)
    V = vm(w2, t2["hw"], lig)
    l1 = w1.lower()
    if l1 in ELIDABLE and V:
        bad.append("F1")
    if l1 in ELIDED and not V:
        bad.append("F2")
    if (w1 + "+" + w2) in CONTR_FR and fr2:
        bad.append("F3")
    if l1 in ("à", "de") and w2.lower() in ("le", "les") and t2["ct"] == "D" and fr2:
        bad.append("F3p")
    if l1 in EUPH and t1["sg"] and V and w2 not in EUPH_EXC:
        bad.append("F4")
    if l1 in PREVOC_ONLY and not (V and w2 not in EUPH_EXC):
        bad.append("F5")
    return bad


def settled_py(lang, toks):
    """(ok, list of (i, clauses)) for the raw adjacency, as the Lean `settled`"""
    bad = []
    for i in range(len(toks) - 1):
        if lang == "fr" and i > 0 and toks[i - 1]["lier"]:
            continue
        c = pair_clauses(lang, toks[i], toks[i + 1])
        if c:
            bad.append((i, c))
    return (not bad), bad


def words_of(r):
    return re.findall(r"[\w'-]+", re.sub(r"<[^>]+>", " ", r)) if isinstance(r, str) else []


def text_violations(lang, toks, before=None, lig=True):
    """the property on the TEXT: empty tokens dropped, the LAST word of a multi-word lexicon lexeme is the word that
    meets the next token.  Returns [(signature, detail)].  `before`: the input tokens of the same call when known."""
    idx = [i for i, t in enumerate(toks) if t["r"] != ""]
    res = []
    for k in range(len(idx) - 1):
        i, j = idx[k], idx[k + 1]
        t1, t2 = toks[i], toks[j]
        # the documented exemption: the word before is `lié` (hyphen-attached) — the code reads cList[i-1], which may be
        # a token that a contraction emptied at this level (it still carries `lier`, detokenize still writes its hyphen)
        if lang == "fr" and ((k > 0 and toks[idx[k - 1]]["lier"]) or (i > 0 and toks[i - 1]["lier"])):
            continue
        ws = words_of(t1["r"])
        ctx = None
        over = None
        if len(ws) > 1:
            if t1["ct"] in ("Q", "DT", "NO") or not t1.get("lemma") or " " not in t1["lemma"]:
                continue        # quoted text, dates, numbers: not the library's words
            if not isinstance(t1["r"], str) or not re.search(r"[\w'-]\W*$", re.sub(r"<[^>]+>", "", t1["r"])):
                continue
            over = ws[-1]
            ctx = "multiword-lexeme"
        cl = [c for c in pair_clauses(lang, t1, t2, over, lig) if c in FLAGGED]
        if not cl:
            continue
        if ctx is None:
            v1 = view(t1["r"])
            prev = view(toks[idx[k - 1]]["r"]) if k > 0 else None
            pw = prev[1] if prev else ""
            w2v = (view(t2["r"]) or ("", "", ""))[1]
            if lang == "fr" and w2v[:1] in ("Œ", "Æ") and set(cl) <= {"F1", "F4"}:
                # setLemma expands œ/æ but not the capitals Œ/Æ, which the vowel test of isElidableFr does not know
                ctx = "capital-ligature"
            elif j != i + 1:
                ctx = "across-emptied-token"
            elif cl == ["F2"] and t1["ct"] == "Pro" and v1 and (v1[0] != "" or v1[2].strip() != ""):
                # an already elided clitic that carries a tag / punctuation: the `elided` guard of doPronounPlacement
                # tests realization.endswith("'") and moves it all the same
                ctx = "elided-clitic-with-attached-material-moved"
            elif lang == "en" and pw in ("an", "An"):
                ctx = "after-rewritten-pair"
            elif (v1 and v1[1] != v1[1].lower()) or ("F3p" in cl and w2v != w2v.lower()):
                ctx = "capitalised"
            elif pw.endswith("'") or pw.lower() in EUPH.values():
                ctx = "after-rewritten-pair"
            else:
                ctx = "plain"
        for c in cl:
            res.append(("%s:%s:%s" % (lang, c, ctx), "tokens %d,%d: %r | %r" % (i, j, t1["r"], t2["r"])))
    return res


# ------------------------------------------------------------------------------------------------------------
# the real library
# ------------------------------------------------------------------------------------------------------------
_P = {}


def P():
    """pyrealb namespace (imported lazily, after core.ensure_repo_on_path())"""
    if not _P:
        core.ensure_repo_on_path()
        import pyrealb
        ns = {}
        exec("from pyrealb import *", ns)
        _P["ns"] = ns
        _P["mod"] = pyrealb
        from pyrealb.Lexicon import getLexicon
        _P["getLexicon"] = getLexicon
    return _P


class Quiet:
    """stderr warnings of pyrealb are not compared (DESIGN §3): silence them"""

    def __enter__(self):
        self.old = sys.stderr
        sys.stderr = io.StringIO()

    def __exit__(self, *a):
        sys.stderr = self.old


def set_lang(lang):
    ns = P()["ns"]
    (ns["loadFr"] if lang == "fr" else ns["loadEn"])()


FALLBACK_NON_ASCII = "\u00a0«»ÀÂÄÆÇÈÉÊËÎÏÑÔÖÙÛÜàâäæçèéêëîïñôöùûüŒœ–—’…"


def alphabet():
    """the recorded finite alphabet; when the tie is broken (TranslateError: a lifted constant changed shape) the
    last recorded one is used, so that the oracle on the real library still runs"""
    if "alpha" not in _P:
        try:
            from harness.translate import elision
            _P["alpha"] = set(elision.extract()["alphabet"])
        except Exception as e:  # noqa: TranslateError or anything the broken source causes
            _P["alpha"] = set(FALLBACK_NON_ASCII) | {chr(i) for i in range(32, 127)} | {"\t", "\n"}
            _P["alpha_error"] = str(e)[:200]
    return _P["alpha"]


def safe_driver(ctx, lines):
    """answers of the model driver, or None for every line when the model is unavailable (driver not built, crash):
    the direct oracle on the real library must run all the same"""
    try:
        return core.run_driver(lines, ctx.driver)
    except Exception as e:  # noqa
        ctx.notes["model_unavailable"] = str(e)[:300]
        return [None] * len(lines)


def in_alphabet(toks):
    a = alphabet()
    for t in toks:
        r = t["r"]
        if isinstance(r, str):
            for c in r:
                if ord(c) > 127 and c not in a:
                    return False
                if ord(c) < 32 and c not in "\t\n":
                    return False
    return True


# ---------------------------------------------------------------- (a) token lists

FR_WORDS = {
    # word -> (constructor, lemma, extra) ; realization is overwritten by the generated text
    "elid": [("D", "le"), ("Pro", "je"), ("Pro", "me"), ("P", "de"), ("Adv", "ne"), ("C", "que"), ("C", "puisque"),
             ("C", "lorsque"), ("P", "jusque"), ("C", "quoique"), ("Pro", "que")],
    "euph": [("D", "mon"), ("D", "ton"), ("D", "son"), ("D", "ce"), ("Pro", "ce"), ("A", "beau"), ("A", "fou"), ("A", "mou"),
             ("A", "nouveau"), ("A", "vieux")],
}
FR_FIRST = ["la", "le", "je", "me", "te", "se", "de", "ne", "que", "puisque", "lorsque", "jusque", "quoique",
            "ma", "ta", "sa", "ce", "beau", "fou", "mou", "nouveau", "vieux", "à", "ça", "des", "si",
            "l'", "d'", "j'", "qu'", "cet", "bel", "mon", "vieil", "au", "du", "et", "pour", "parce que", "quant à"]
FR_SECOND = ["le", "les", "la", "a", "des", "autres", "il", "ils", "et", "ou", "où", "aujourd'hui", "est", "était",
             "étaient", "arbre", "ami", "amie", "eau", "île", "homme", "hôtel", "habit", "héros", "hibou", "haricot",
             "hache", "honte", "huit", "onze", "un", "une", "œuf", "Étienne", "Hollande", "Henri", "yeux", "chat",
             "maison", "grand", "autre", "ancien", "haut", "haïr", "aime", "aimer", "habite", "hais", "y", "en", "à",
             "USA", "8", "80", "", ",", "...", "(", "-"]
FR_CT = {"le": "D", "les": "D", "la": "D", "a": "V", "des": "D", "autres": "A", "il": "Pro", "ils": "Pro", "et": "C",
         "ou": "C", "où": "Pro", "aujourd'hui": "Adv", "est": "V", "était": "V", "étaient": "V", "y": "Pro", "en": "Pro",
         "à": "P", "de": "P", "je": "Pro", "me": "Pro", "te": "Pro", "se": "Pro", "ne": "Adv", "que": "C",
         "puisque": "C", "lorsque": "C", "jusque": "P", "quoique": "C", "ma": "D", "ta": "D", "sa": "D", "ce": "D",
         "beau": "A", "fou": "A", "mou": "A", "nouveau": "A", "vieux": "A", "ça": "Pro", "si": "C", "pour": "P",
         "parce que": "C", "quant à": "P", "grand": "A", "autre": "A", "ancien": "A", "haut": "A", "haïr": "V",
         "aime": "V", "aimer": "V", "habite": "V", "hais": "V"}
LEMMA_OF = {"les": "le", "la": "le", "a": "avoir", "des": "un", "autres": "autre", "il": "lui", "ils": "lui", "est": "être",
            "était": "être", "étaient": "être", "ma": "mon", "ta": "ton", "sa": "son", "me": "me", "te": "me", "se": "me",
            "aime": "aimer", "habite": "habiter", "hais": "haïr", "amie": "ami", "yeux": "oeil", "l'": "le", "d'": "de",
            "j'": "je", "qu'": "que", "cet": "ce", "bel": "beau", "vieil": "vieux", "au": "au", "du": "du"}
EN_FIRST = ["a", "A", "an", "the", "I", "he", "she", "it", "you", "we", "they", "there", "that", "what", "let", "can",
            "do", "does", "did", "is", "are", "was", "will", "would", "have", "has", "had", "cannot", "must", "not"]
EN_SECOND = ["apple", "hour", "honest", "honour", "honorable", "heir", "herb", "hotel", "house", "user", "unit",
             "uncle", "ugly", "ubiquity", "usual", "uvula", "one", "once", "only", "onion", "European", "ewe", "eagle",
             "egg", "idea", "island", "FBI", "USA", "Xbox", "X", "NASA", "a", "an", "not", "am", "is", "are", "will",
             "would", "have", "has", "had", "us", "cat", "year", "8", "", ",", "(", "yacht", "Ünit", "être"]
PRE = ["", "", "", "", "(", "<b>", "<a href=\"x\">", "« ", "“", "<i><b>", "<a href=\"x\"><em>", "(<b>", "<b>(<i>", " ", "- ", "<", "<>", "<b", "\"", "[[", "("]
POST = ["", "", "", "", ",", "</b>", ")", " !", ", ", "</i>", " x", " le", ".", "]]", "\n", " »", "?", "</b>,"]


def gen_tok(rng, lang, word, first):
    ct = None
    if lang == "fr":
        ct = FR_CT.get(word)
        if ct is None:
            ct = rng.choice(["N", "N", "N", "A", "Q", "V"]) if word and word[0].isalpha() else "Q"
        lemma = LEMMA_OF.get(word, word)
    else:
        ct = "D" if word in ("a", "A", "an", "the") and rng.random() < 0.9 else rng.choice(["N", "A", "Q", "V", "Pro"])
        lemma = word.lower() if word not in ("I", "FBI", "USA", "NASA", "X", "Xbox", "European") else word
    style = rng.random()
    if style < 0.55:
        r = word
    elif style < 0.65:
        r = word.capitalize()
    elif style < 0.68:
        r = word.upper()
    else:
        r = rng.choice(PRE) + (word if rng.random() < 0.85 else word.capitalize()) + rng.choice(POST)
    t = {"mk": [ct, lemma], "r": r, "lier": rng.random() < 0.06, "n": rng.choice(["s", "s", "s", "p"])}
    if rng.random() < 0.08:
        t["lang"] = "en" if lang == "fr" else "fr"      # a word of the other language inside the list
    if rng.random() < 0.01:
        t["r"] = None
    if rng.random() < 0.03:
        t["mk"] = ["NO", 8] if rng.random() < 0.5 else ["DT", "2024-05-03T10:30:00"]
    return t


def gen_elide_lines(rng, n, langs=("fr", "en")):
    lines = []
    for k in range(n):
        lang = langs[0] if rng.random() < 0.72 or len(langs) == 1 else langs[1]
        ln = rng.choice([2, 2, 2, 3, 3, 3, 4, 4, 5, 6, 1, 0]) if rng.random() < 0.97 else rng.randint(7, 12)
        toks = []
        for i in range(ln):
            if lang == "fr":
                u = rng.random()
                if u < 0.45:
                    w = rng.choice(FR_FIRST)
                else:
                    w = rng.choice(FR_SECOND)
            else:
                w = rng.choice(EN_FIRST if rng.random() < 0.5 else EN_SECOND)
            toks.append(gen_tok(rng, lang, w, i == 0))
        lines.append({"op": "elide", "lang": lang, "contr": lang == "en" and rng.random() < 0.5, "toks": toks})
    return lines


def structured_elide_lines():
    """the interesting cases, always run (both tiers): one line per rule instance"""
    def T(ct, lemma, r, lier=False, n="s"):
        return {"mk": [ct, lemma], "r": r, "lier": lier, "n": n}
    L = []
    nouns = [("arbre", "N"), ("homme", "N"), ("héros", "N"), ("hibou", "N"), ("chat", "N"), ("Étienne", "Q"), ("<b>arbre</b>", "N"),
             ("<b><i>arbre</i></b>", "N"), ("<a href=\"x\"><em>homme</em></a>", "N"), ("(<b>arbre</b>", "N"), ("<b>(<i>héros</i></b>", "N"),
             ("(arbre)", "N"), ("Arbre", "N"), ("Homme", "N"), ("HÉROS", "N"), ("et", "C"), ("ou", "C"), ("où", "Pro"),
             ("aujourd'hui", "Adv"), ("est", "V"), ("était", "V"), ("a", "V"), ("Est", "V"), ("huit", "A"), ("onze", "A")]
    for w in ELIDABLE + list(EUPH) + ["à", "de", "ça", "des", "si", "De", "Le", "Ce", "Ma", "BEAU", "Beau", "QUE", "l'", "cet", "bel"]:
        ct = FR_CT.get(w.lower(), "Q")
        lem = LEMMA_OF.get(w.lower(), w.lower())
        for (x, xct) in nouns:
            for n in ("s", "p"):
                L.append({"op": "elide", "lang": "fr", "contr": False,
                          "toks": [T(ct, lem, w, n=n), T(xct, LEMMA_OF.get(x.lower(), re.sub(r"<[^>]+>|[()]", "", x).lower()), x)]})
        for pre, post in (("<b>", "</b>"), ("(", ""), ("", ","), ("", " x"), ("", "</i> y")):
            L.append({"op": "elide", "lang": "fr", "contr": False, "toks": [T(ct, lem, pre + w + post), T("N", "arbre", "arbre")]})
    for k in CONTR_FR:
        a, b = k.split("+")
        for third in (None, "arbre", "chat", "homme", "héros", "<i>arbre</i>", "(arbre", "", "<b><i>arbre</i></b>", "(<b>chat</b>"):
            for ctb in (FR_CT.get(b, "Q"), "DT", "Pro"):
                toks = [T(FR_CT.get(a, "Q"), a, a), T(ctb, LEMMA_OF.get(b, b), b)]
                if third is not None:
                    toks.append(T("N", re.sub(r"<[^>]+>|[()]", "", third) or "x", third))
                L.append({"op": "elide", "lang": "fr", "contr": False, "toks": toks})
                L.append({"op": "elide", "lang": "fr", "contr": False, "toks": [T("P", "pour", "pour")] + toks})
                L.append({"op": "elide", "lang": "fr", "contr": False, "toks": [T("P", "jusque", "jusque")] + toks})
                L.append({"op": "elide", "lang": "fr", "contr": False, "toks": [T("V", "aller", "va", lier=True)] + toks})
    # windows of four and more tokens: what comes right after a rewritten pair must still be examined
    for k in CONTR_FR:
        a, b = k.split("+")
        for x, xct in (("beau", "A"), ("ce", "D"), ("le", "D"), ("je", "Pro"), ("que", "C"), ("ma", "D"), ("de", "P"), ("à", "P")):
            for y in ("arbre", "homme", "héros", "chat", "le", "les"):
                if k == "de+des" and x == "le":
                    continue        # article after article: "de des le …" is not a text the property speaks of
                for z in (None, "ami"):
                    toks = [T(FR_CT.get(a, "Q"), a, a), T(FR_CT.get(b, "Q"), LEMMA_OF.get(b, b), b),
                            T(xct, LEMMA_OF.get(x, x), x), T(FR_CT.get(y, "N"), LEMMA_OF.get(y, y), y)]
                    if z:
                        toks.append(T("N", z, z))
                    L.append({"op": "elide", "lang": "fr", "contr": False, "toks": toks})
    for x, xct in (("le", "D"), ("que", "C"), ("beau", "A"), ("ce", "D")):
        for y in ("arbre", "homme", "ami"):
            for x2, x2ct in (("le", "D"), ("je", "Pro"), ("beau", "A"), ("de", "P"), ("à", "P")):
                for y2 in ("arbre", "été", "le", "chat"):
                    for x3 in (None, "arbre"):
                        toks = [T(xct, LEMMA_OF.get(x, x), x), T("N", y, y), T(x2ct, LEMMA_OF.get(x2, x2), x2),
                                T(FR_CT.get(y2, "N"), LEMMA_OF.get(y2, y2), y2)]
                        if x3:
                            toks.append(T("N", x3, x3))
                        L.append({"op": "elide", "lang": "fr", "contr": False, "toks": toks})
    for seq in (["a", "apple", "a", "hour"], ["a", "hour", "a", "apple", "a", "egg"], ["a", "cat", "a", "apple"],
                ["a", "apple", "the", "a", "hour"], ["a", "apple", "a", "user", "a", "egg"]):
        L.append({"op": "elide", "lang": "en", "contr": False,
                  "toks": [T("D" if w in ("a", "the") else "N", w, w) for w in seq]})
        L.append({"op": "elide", "lang": "en", "contr": True,
                  "toks": [T("Pro", "I", "I"), T("V", "be", "am")] + [T("D" if w in ("a", "the") else "N", w, w) for w in seq]})
    for (a, ct, alang) in (("le", "D", "fr"), ("le", "D", "en"), ("de", "P", "fr"), ("de", "P", "en"), ("à", "P", "fr"), ("ce", "D", "en"), ("ce", "D", "fr")):
        for (b, bct, blang) in (("arbre", "N", "fr"), ("apple", "N", "en"), ("le", "D", "fr"), ("le", "D", "en"), ("les", "D", "en"), ("homme", "N", "en")):
            for third in (None, ("arbre", "N", "fr"), ("apple", "N", "en")):
                toks = [dict(T(ct, a, a), lang=alang), dict(T(bct, LEMMA_OF.get(b, b), b), lang=blang)]
                if third:
                    toks.append(dict(T(third[1], third[0], third[0]), lang=third[2]))
                L.append({"op": "elide", "lang": "fr", "contr": False, "toks": toks})
    for alang in ("en", "fr"):
        for w, wl in (("apple", "en"), ("arbre", "fr"), ("hour", "en"), ("cat", "en")):
            L.append({"op": "elide", "lang": "en", "contr": False,
                      "toks": [dict(T("D", "a", "a"), lang=alang), dict(T("N", w, w), lang=wl)]})
    for w in EN_SECOND + ["Hour", "HOUR", "<b>hour</b>", "(hour)", "<b><i>apple</i></b>", "<a href=\"x\"><em>old</em></a>",
                          "(<b>apple</b>", "<b><i>user</i></b>", "<i>(<b>hour</b></i>", "uni", "Uni", "eU", "ONE", "Once", "hOnOuRable", "I", "U"]:
        for a in ("a", "A", "<b>a</b>", "(a", "a,", "an", "the"):
            for ct in ("D", "N"):
                L.append({"op": "elide", "lang": "en", "contr": False, "toks": [T(ct, "a", a), T("N", re.sub(r"<[^>]+>|[()]", "", w).lower() or "x", w)]})
    for k in ["are+not", "can+not", "will+not", "I+am", "let+us", "he+is", "what+is", "there+have", "cannot+be", "a+not", "A+apple"]:
        a, b = k.split("+")
        for contr in (False, True):
            for extra in ([], [T("D", "a", "a"), T("N", "apple", "apple")], [T("N", "hour", "hour")]):
                L.append({"op": "elide", "lang": "en", "contr": contr, "toks": [T("V", a.lower(), a), T("Adv", b, b)] + extra})
                L.append({"op": "elide", "lang": "en", "contr": contr, "toks": [T("D", "a", "a"), T("V", a.lower(), a), T("Adv", b, b + " a")] + extra})
    return L


def build_terminals(line):
    ns = P()["ns"]
    res = []
    for t in line["toks"]:
        ct, lemma = t["mk"]
        with Quiet():
            term = ns[ct](lemma, t.get("lang", line["lang"]))
        term.realization = t["r"]
        if t.get("lier"):
            term.props["lier"] = True
        if t.get("n") == "p":
            term.setProp("n", "p")
        res.append(term)
    return res


def impl_elide(line):
    """-> (model line, impl answer, facts) ; the real doElision on real Terminal objects"""
    lang = line["lang"]
    set_lang(lang)
    ns = P()["ns"]
    terms = build_terminals(line)
    lex = P()["getLexicon"]("fr")      # isElidableFr consults the French lexicon (commit 8586a6a)
    facts = [cap.tokfacts(t, lex) for t in terms]
    with Quiet():
        node = ns["Q"]("x")
    if line.get("contr"):
        node.contraction = True
    fn = type(node).doElision
    fn = getattr(fn, "__wrapped__", fn)
    try:
        with Quiet():
            fn(node, terms)
        ans = {"r": [t.realization for t in terms]}
    except Exception as e:  # noqa
        ans = {"err": type(e).__name__}
    mline = {"op": "elide", "lang": lang, "contr": bool(line.get("contr")), "toks": [cap.model_tok(f) for f in facts]}
    return mline, ans, facts


def changed(facts, ans):
    return "err" in ans or any(a != f["r"] for a, f in zip(ans["r"], facts))


def after_facts(facts, ans):
    out = []
    for f, r in zip(facts, ans["r"]):
        g = dict(f)
        g["r"] = r
        # the h flags are static per token (a rewritten token is never re-read as a second word)
        out.append(g)
    return out


def clean_line(facts, strict):
    """strict (generated token lists): every token is exactly one word; otherwise (captured real calls): every
    realization is a str (multi-word tokens are handled by text_violations)"""
    for f in facts:
        if not isinstance(f["r"], str) or "\n" in f["r"]:
            return False
        if strict and (f["r"] == "" or len(words_of(f["r"])) != 1):
            return False
        if f["hw"] in ("c", "x") or f["hr"] in ("c", "x") or f["hw"] != f["hr"]:
            return False
    return True


def stale_input(lang, facts):
    """the input already contains an elided / prevocalic / `an` form where it must not be (a precondition of the pass)"""
    ok, bad = settled_py(lang, facts)
    return any(c in ("F2", "F5", "A2") for _, cl in bad for c in cl)


def oracle_call(ctx, kind, lang, facts, ans, inp):
    """the property on the output of one real doElision call"""
    if "err" in ans:
        sig = "%s:crash:%s" % (lang, ans["err"])
        if lang == "fr" and ans["err"] == "KeyError":
            ws = [view(f["r"]) for f in facts]
            if any(v and v[1].lower() in EUPH and v[1] not in EUPH for v in ws):
                sig += ":euphony-capitalised"
        elif ans["err"] == "TypeError" and any(f["r"] is None for f in facts):
            return      # a None realization is outside TokWF
        elif ans["err"] == "AttributeError" and any(f["hw"] == "c" or f["hr"] == "c" for f in facts) and kind == "elide":
            return      # generated junk: a number/date token given an unknown h-initial realization (outside TokWF)
        ctx.fail(sig, inp, "doElision raised %s on %s" % (ans["err"], [f["r"] for f in facts]))
        return
    if not clean_line(facts, kind == "elide") or stale_input(lang, facts):
        return
    if kind == "elide" and any(isinstance(f["r"], str) and (view(f["r"]) or ("", "", ""))[1][:1].lower() in tuple(LIGATURES)
                               for f in facts):
        return      # a generated realization beginning with a ligature: not reachable through the API (setLemma expands
                    # œ/æ); the ligature families of (b)/(c) go through the real constructors
    out = after_facts(facts, ans)
    for sig, det in text_violations(lang, out, facts, lig=True):
        ctx.fail(sig, inp, "%s: %s -> %s ; %s" % (kind, [f["r"] for f in facts], ans["r"], det))


# ---------------------------------------------------------------- (b) the sweep through the real API

FIRST_CANDS = {
    "le": ['D("le")'], "la": ['D("le").g("f")'], "je": ['Pro("je").pe(1)'], "me": ['Pro("me").pe(1)'],
    "te": ['Pro("me").pe(2)'], "se": ['Pro("me").c("refl")', 'Pro("moi").c("refl")', 'Q("se")'], "de": ['P("de")'], "ne": ['Adv("ne")'],
    "que": ['C("que")'], "puisque": ['C("puisque")'], "lorsque": ['C("lorsque")'], "jusque": ['P("jusque")'],
    "quoique": ['C("quoique")'],
    "ma": ['D("mon").pe(1).g("f")', 'D("mon").g("f")'], "ta": ['D("ton").g("f")', 'D("mon").pe(2).g("f")'], "sa": ['D("son").g("f")'],
    "ce": ['D("ce")'], "beau": ['A("beau").pos("pre")'], "fou": ['A("fou").pos("pre")'], "mou": ['A("mou").pos("pre")'],
    "nouveau": ['A("nouveau").pos("pre")'], "vieux": ['A("vieux").pos("pre")'],
    "à": ['P("à")'], "ça": ['Pro("ça")'], "des": ['D("un").n("p")'], "si": ['C("si")'],
    # controls: never rewritten
    "pour": ['P("pour")'], "les": ['D("le").n("p")'], "mes": ['D("mon").pe(1).n("p")'], "beaux": ['A("beau").pos("pre").n("p")'], "qui": ['Pro("qui")'],
}


def resolve_first():
    """first word -> (source, realized word, n=="s"), verified on the real library"""
    ns = P()["ns"]
    set_lang("fr")
    res = {}
    for w, cands in FIRST_CANDS.items():
        for src in cands + ['Q("%s")' % w]:
            try:
                with Quiet():
                    t = eval(src, ns)
                    r = t.realize()
            except Exception:  # noqa
                continue
            if r == w:
                res[w] = (src, t.getProp("n") == "s")
                break
        else:
            raise core.Infra("C06: cannot obtain the first word %r from the real library" % w)
    return res


def expected_pair(f, sg, form, h):
    """the rule restated: the text of `f` followed by `form` (h = lexicon flag of form's lemma/pos)"""
    V = vm(form, h, True)
    if f in ELIDABLE and V:
        return f[:-1] + "'" + form
    if f in EUPH and sg and V:
        if f == "ce" and (form.lower() == "est" or form.lower().startswith("étai") or form.lower() == "a"):
            return "c'" + form
        if form in EUPH_EXC:
            return f + " " + form
        return EUPH[f] + " " + form
    return f + " " + form


def lex_h(lex, lemma, pos):
    e = lex.get(lemma, {}).get(pos)
    return "a" if isinstance(e, dict) and e.get("h") == 1 else "m"


_W = {}


def worker_init():
    sys.stderr = io.StringIO()
    _W["cap"] = cap.install(cap.Capture())


# two or more nested tags, a tag plus punctuation, in front of the second word (groups 1 of sepWordREC with several tags)
DECORS = ['.tag("i").tag("b")', '.tag("a",{"href":"x"}).tag("em")', '.b("(").tag("b")']


def decorated(ns, src, form, idx, every):
    """[(decor, source, realization alone)] : the plain form, and for every `every`-th form its decorated variants"""
    out = [("", src, form)]
    if src.startswith('"'):
        return out          # a bare string child cannot carry options
    if idx % every == 0 or "œ" in src.lower() or "æ" in src.lower():
        for d in DECORS:
            try:
                r = eval(src + d, ns).realize()
            except Exception:  # noqa
                continue
            if r.endswith(">") or (form or "") in r:
                out.append((d, src + d, r))
    return out


def sweep_fr_chunk(args):
    """forms: list of (form, src, lemma, pos) ; firsts: {w: (src, sg)} ; returns (n, nontrivial, failures, sampled calls)"""
    forms, firsts, sample_every, decor_every = args
    ns = P()["ns"]
    set_lang("fr")
    lex = P()["getLexicon"]()
    c = _W["cap"]
    c.clear()
    c.keep_texts = False
    fails, n, nontriv, calls = [], 0, 0, []
    codes = {w: compile(s[0], "<first>", "eval") for w, s in firsts.items()}
    PPc = ns["PP"]
    for fidx, (form, src, lemma, pos) in enumerate(forms):
        h = lex_h(lex, lemma, pos)
        try:
            xcode = compile(src, "<form>", "eval")
        except SyntaxError:
            continue
        c.keep_calls = False
        try:
            alone = eval(xcode, ns)
            alone = (ns["Q"](alone) if isinstance(alone, str) else alone).realize()
            if form is None:
                form = alone     # quoted text: what it realizes as is the question (œ -> oe or not)
            if alone != form:
                continue        # the map's key is not what this terminal realizes alone (ambiguous entry)
        except Exception:  # noqa
            continue
        for (decor, dsrc, dreal) in decorated(ns, src, form, fidx, decor_every):
          dcode = xcode if not decor else compile(dsrc, "<form>", "eval")
          for w, (fsrc, sg) in firsts.items():
            if (w + "+" + (view(form) or ("", form, ""))[1]) in CONTR_FR:
                continue        # the code's own contraction table (not in the property text): covered by (a)
            n += 1
            keep = (n % sample_every == 0)
            c.keep_calls = keep
            try:
                txt = PPc(eval(codes[w], ns), eval(dcode, ns)).realize()
            except Exception as e:  # noqa
                txt = "EXC:" + type(e).__name__
            exp = expected_pair(w, sg, form, h)
            exp = exp[:len(exp) - len(form)] + dreal
            if not txt.startswith("EXC:") and not txt.endswith(dreal):
                continue
            if txt != w + " " + dreal:
                nontriv += 1
            if txt != exp:
                V = vm(form, h, True)
                kind_ = "capital-ligature" if form[:1] in ("Œ", "Æ") else "plain"
                if txt.startswith("EXC:"):
                    sig = "fr:crash:%s:sweep" % txt[4:]
                elif w in ELIDABLE:
                    sig = ("fr:F1:" + kind_) if V else "fr:F2:plain"
                elif w in EUPH:
                    sig = ("fr:F4:" + kind_) if V else "fr:F5:plain"
                else:
                    sig = "fr:sweep:control-word-rewritten"
                fails.append((sig, {"kind": "pair", "lang": "fr", "src": "PP(%s, %s)" % (fsrc, dsrc)},
                              "expected %r, realized %r (lexicon h flag of %s/%s: %s)" % (exp, txt, lemma, pos, h)))
        if c.calls:
            calls.extend(c.calls)
            c.calls = []
    return n, nontriv, fails[:50], calls


def sweep_en_chunk(args):
    forms, sample_every, decor_every = args
    ns = P()["ns"]
    set_lang("en")
    c = _W["cap"]
    c.clear()
    c.keep_texts = False
    fails, n, nontriv, calls = [], 0, 0, []
    for fidx, (form, src, natural) in enumerate(forms):
      for (decor, dsrc, dreal) in decorated(ns, src, form, fidx, decor_every):
        for shape in ((("PP(D(\"a\"), %s)", "%s"),) + ((("NP(D(\"a\"), %s)", "%s"),) if natural else ())):
            n += 1
            c.keep_calls = (n % sample_every == 0)
            e = shape[0] % dsrc
            try:
                txt = eval(e, ns).realize()
            except Exception as ex:  # noqa
                txt = "EXC:" + type(ex).__name__
            w = view(form)
            want = ("an " if (w and an_rule(w[1])) else "a ") + dreal
            if txt.startswith("an "):
                nontriv += 1
            if not txt.startswith("EXC:") and txt not in ("a " + dreal, "an " + dreal):
                continue        # the determiner agreed with a plural-only noun, …: not an a/an question
            if txt != want:
                if txt.startswith("EXC:"):
                    sig = "en:crash:%s:sweep" % txt[4:]
                else:
                    sig = "en:A1:plain" if want.startswith("an ") else "en:A2:plain"
                fails.append((sig, {"kind": "pair", "lang": "en", "src": e}, "expected %r, realized %r" % (want, txt)))
        if c.calls:
            calls.extend(c.calls)
            c.calls = []
    return n, nontriv, fails[:50], calls


def sweep_contr_chunk(args):
    """(à|de|pour) + (le|la|les) + third word: the look-ahead rule, flat and nested"""
    forms, sample_every, decor_every = args
    ns = P()["ns"]
    set_lang("fr")
    lex = P()["getLexicon"]()
    c = _W["cap"]
    c.clear()
    c.keep_texts = False
    fails, n, nontriv, calls = [], 0, 0, []
    for fidx, (form, src, lemma, pos) in enumerate(forms):
        h = lex_h(lex, lemma, pos)
        if form is None:
            try:
                form = eval(src, ns).realize()
            except Exception:  # noqa
                continue
        V = vm(form, h, True)
        for (decor, dsrc, dreal) in decorated(ns, src, form, fidx, decor_every):
          for p, contr_s, contr_p in (("à", "au", "aux"), ("de", "du", "des"), ("pour", None, None)):
            for num in ("s", "p"):
                det = 'D("le")' if num == "s" else 'D("le").n("p")'
                for shape in ('PP(P("%s"), %s, %s)', 'PP(P("%s"), AP(%s, %s))', 'PP(P("pour"), P("%s"), %s, %s)'):
                    n += 1
                    c.keep_calls = (n % sample_every == 0)
                    e = shape % (p, det, dsrc)
                    try:
                        txt = eval(e, ns).realize()
                    except Exception as ex:  # noqa
                        txt = "EXC:" + type(ex).__name__
                    if num == "p":
                        want = (contr_p if contr_p else p + " les") + " " + dreal
                    elif V:
                        want = p + " l'" + dreal
                    else:
                        want = (contr_s if contr_s else p + " le") + " " + dreal
                    if not txt.startswith("EXC:") and not txt.endswith(dreal):
                        continue        # the third word is realized differently in context (pronominal verb, …)
                    if txt.startswith("pour ") and shape.startswith('PP(P("pour")'):
                        txt = txt[5:]
                    if txt != p + " le " + dreal and txt != p + " les " + dreal:
                        nontriv += 1
                    if txt != want:
                        flat = "AP(" not in shape
                        if txt.startswith("EXC:"):
                            sig = "fr:crash:%s:sweep" % txt[4:]
                        elif re.match(r"(à|de) les? ", txt):
                            sig = "fr:F3p:plain"
                        elif " le " + dreal in txt:
                            sig = "fr:F1:plain"
                        elif "l'" in txt and not V:
                            sig = "fr:F2:plain"
                        elif V and decor and flat and contr_s and txt == contr_s + " " + dreal:
                            # the look-ahead reads the RAW realization of the third token: a tag / punctuation hides the vowel
                            sig = "fr:lookahead:tagged-third-word-contracted"
                        else:
                            sig = "fr:lookahead:contracted-instead-of-elided" if V else "fr:F3p:other"
                        fails.append((sig, {"kind": "pair", "lang": "fr", "src": e}, "expected %r, realized %r" % (want, txt)))
        if c.calls:
            calls.extend(c.calls)
            c.calls = []
    return n, nontriv, fails[:50], calls


def lexicon_forms(lang, ctx):
    """(form, source of the terminal, lemma, pos) for every key of the lemmatization map"""
    ns = P()["ns"]
    from pyrealb.lemmatize import buildLemmataMap
    with Quiet():
        so = sys.stdout
        sys.stdout = io.StringIO()
        try:
            m = buildLemmataMap(lang)
        finally:
            sys.stdout = so
    res = []
    for form, terms in m.items():
        if not form:
            continue
        for t in terms:
            if isinstance(t.lemma, str):
                res.append((form, t, t.lemma, t.constType))
    set_lang(lang)
    return res


def with_source(forms):
    out = []
    for (form, t, lemma, ct) in forms:
        try:
            out.append((form, t.toSource(), lemma, ct))
        except Exception:  # noqa
            pass
    return out


def quick_forms(rng, lang, per_class):
    """quick tier: inflected forms of a stratified sample of lexicon entries, built through the real constructors
    (the lemmatization map takes 15 s to build); -> (form, source, lemma, pos)"""
    ns = P()["ns"]
    set_lang(lang)
    lex = P()["getLexicon"]()
    by = {}
    for lemma, e in lex.items():
        if not lemma or '"' in lemma or "\\" in lemma:
            continue
        for pos in ("N", "A", "V", "Adv"):
            if pos in e and isinstance(e[pos], dict):
                if lang == "en" and pos in ("V", "Adv"):
                    continue
                by.setdefault((pos, lemma[0].lower(), e[pos].get("h", 0), str(e[pos].get("tab"))[:2]), []).append((lemma, pos))
    res = []
    for k in sorted(by):
        v = by[k]
        for lemma, pos in (v if len(v) <= per_class else rng.sample(v, per_class)):
            base = '%s("%s")' % (pos, lemma)
            if pos == "N":
                srcs = [base, base + '.n("p")']
            elif pos == "A":
                srcs = [base] + ([base + '.g("f")', base + '.n("p")', base + '.g("f").n("p")'] if lang == "fr" else [base + '.f("co")'])
            elif pos == "V":
                srcs = [base + '.t("b")', base + '.t("pp")', base + '.t("pr")',
                        base + '.t("%s").pe(%d).n("%s")' % (rng.choice(["p", "i", "f", "ps", "c", "s"]), rng.choice([1, 2, 3]), rng.choice("sp"))]
            else:
                srcs = [base]
            for src in srcs:
                try:
                    with Quiet():
                        form = eval(src, ns).realize()
                except Exception:  # noqa
                    continue
                if form and "[[" not in form and " " not in form:
                    res.append((form, src, lemma, pos))
    return res


LIG_WORDS = ["œuvre", "œufs", "œuf", "œil", "œdipe", "œsophage", "æschne", "ægosome"]


def ligature_forms(capitals=True):
    """quoted text / bare string children beginning with a ligature (form None: computed from the real library)"""
    res = []
    for w in LIG_WORDS + ([w.capitalize() for w in LIG_WORDS[:5]] + ["Æschne"] if capitals else []):
        res.append((None, 'Q("%s")' % w, w, "Q"))
        res.append((None, '"%s"' % w, w, "Q"))
    return res


def chunks(l, k):
    return [l[i:i + k] for i in range(0, len(l), k)]


def stratified(rng, forms, per_class, key):
    by = {}
    for f in forms:
        by.setdefault(key(f), []).append(f)
    res = []
    for k in sorted(by):
        v = by[k]
        res.extend(v if len(v) <= per_class else rng.sample(v, per_class))
    return res


# ---------------------------------------------------------------- (c) sentences

def seed_expressions():
    """(lang, file, setup, source) of every expression asserted in /repo/tests/test_*.py, with the module-level setup"""
    seeds = []
    for path in sorted(glob.glob(os.path.join(core.REPO, "tests", "test_*.py"))):
        try:
            src = open(path, encoding="utf-8").read()
            tree = ast.parse(src)
        except Exception:  # noqa
            continue
        lines = src.split("\n")

        def seg(n):
            if n.lineno == n.end_lineno:
                return lines[n.lineno - 1].encode("utf-8")[n.col_offset:n.end_col_offset].decode("utf-8")
            parts = [lines[n.lineno - 1].encode("utf-8")[n.col_offset:].decode("utf-8")]
            parts.extend(lines[n.lineno:n.end_lineno - 1])
            parts.append(lines[n.end_lineno - 1].encode("utf-8")[:n.end_col_offset].decode("utf-8"))
            return "\n".join(parts)
        lang = "fr" if re.search(r"load\(\s*[\"']fr[\"']\s*\)|loadFr\(\)", src) else "en"
        setup = []
        for n in tree.body:
            if isinstance(n, (ast.Assign, ast.Expr)) and not (isinstance(n, ast.Expr) and isinstance(n.value, ast.Constant)):
                s = seg(n)
                if s and "sys.path" not in s:
                    setup.append(s)
            elif isinstance(n, ast.FunctionDef) and not n.name.startswith("test_"):
                setup.append(seg(n))
        setup = "\n".join(setup)
        for n in tree.body:
            if isinstance(n, ast.FunctionDef) and n.name.startswith("test_"):
                for a in n.body:
                    if isinstance(a, ast.Assert) and isinstance(a.test, ast.Compare):
                        e = a.test.left
                        # strip the trailing .realize()
                        if isinstance(e, ast.Call) and isinstance(e.func, ast.Attribute) and e.func.attr == "realize":
                            e = e.func.value
                        s = seg(e)
                        if s and len(s) < 3000:
                            seeds.append((lang, os.path.basename(path), setup, " ".join(s.split())))
    return seeds


FR_N = ["arbre", "ami", "eau", "île", "école", "enfant", "oiseau", "homme", "hôtel", "habit", "heure", "histoire", "hôpital",
        "héros", "hibou", "haricot", "hache", "honte", "hasard", "haie", "chat", "maison", "garçon", "fille", "souris", "idée", "usine", "yeux", "oeil", "an", "été", "hiver"]
FR_A_PRE = ["beau", "nouveau", "vieux", "fou", "mou", "grand", "petit", "autre", "ancien", "haut", "énorme", "joli", "bon"]
FR_A_POST = ["heureux", "honteux", "hardi", "habile", "étrange", "gris", "immense", "ouvert", "utile", "rouge"]
FR_V = ["aimer", "avoir", "être", "haïr", "habiter", "entendre", "ouvrir", "aller", "écouter", "honorer", "hurler", "hésiter",
        "manger", "voir", "offrir", "user", "imaginer", "attendre", "donner", "parler", "heurter", "oublier"]
FR_D = ['D("le")', 'D("un")', 'D("ce")', 'D("mon").pe(1)', 'D("mon").pe(2)', 'D("mon")', 'D("notre")', 'D("quel")', 'D("le")', 'D("le")']
FR_P = ["de", "à", "jusque", "pour", "dans", "par", "sur", "avec", "en", "sans", "vers", "chez"]
FR_C = ["que", "puisque", "lorsque", "quoique", "si", "parce que", "tandis que", "quand", "et", "ou", "mais"]
FR_T = ["p", "i", "f", "pc", "ps", "c", "s", "pq", "ip"]
EN_N = ["apple", "hour", "heir", "herb", "hotel", "house", "user", "unit", "uncle", "umbrella", "one", "onion", "European", "ewe",
        "eagle", "egg", "idea", "island", "cat", "year", "honour", "honor", "university", "uvula", "ox", "yacht", "elephant", "use", "urn"]
EN_A = ["honest", "honorable", "ugly", "usual", "unique", "old", "easy", "only", "open", "big", "hot", "eerie", "European", "useful", "unusual", "early", "able", "ideal"]
EN_V = ["eat", "have", "be", "love", "open", "use", "honour", "see", "give", "ask", "own", "hear", "arrive", "go"]
EN_D = ['D("a")', 'D("a")', 'D("a")', 'D("the")', 'D("this")', 'D("my")', 'D("no")']


def gen_sentence(rng, lang):
    """-> source text of one expression (constituent or dependency notation)"""
    def opt(s, p=0.25):
        if rng.random() < p:
            s += rng.choice(['.tag("i").tag("b")', '.tag("a",{"href":"x"}).tag("em")', '.b("(").tag("b")', '.tag("em").tag("a",{"href":"x"}).b("(")',
                             '.a(",")', '.b("(")', '.tag("b")', '.tag("a",{"href":"x"})', '.en("\\"")', '.ba("[")', '.a("!")',
                             '.cap(True)', '.b("...")', '.en("(")', '.tag("i").a(".")'])
        return s
    if lang == "fr":
        def n_(w=None, pl=None):
            w = w or rng.choice(FR_N)
            s = 'N("%s")' % w
            if (pl if pl is not None else rng.random() < 0.25):
                s += '.n("p")'
            return opt(s, 0.1)

        def np(depth=0, allow_pro=True):
            parts = [opt(rng.choice(FR_D), 0.08)]
            if rng.random() < 0.45:
                parts.append(opt('A("%s")' % rng.choice(FR_A_PRE), 0.05))
            if rng.random() < 0.1:
                parts.append('NO(%d)%s' % (rng.choice([1, 2, 8, 11, 80, 100]), rng.choice(['', '.dOpt({"nat":True})', '.dOpt({"ord":True})'])))
            parts.append(n_())
            if rng.random() < 0.3:
                parts.append(opt('A("%s")' % rng.choice(FR_A_POST), 0.05))
            if depth < 2 and rng.random() < 0.3:
                parts.append(pp(depth + 1))
            if depth < 1 and rng.random() < 0.15:
                parts.append('SP(Pro("%s"), %s)' % (rng.choice(["que", "qui"]), vp(depth + 1, rel=True)))
            s = "NP(%s)" % ", ".join(parts)
            if allow_pro and rng.random() < 0.15:
                s += ".pro()"
            if rng.random() < 0.2:
                s += '.n("p")'
            return opt(s, 0.15)

        def pp(depth=0):
            p = rng.choice(FR_P)
            if rng.random() < 0.2:
                # flat: the preposition and the article at the same level
                if rng.random() < 0.4:
                    return opt('PP(P("%s"), %s, A("%s"), %s)' % (p, rng.choice(FR_D), rng.choice(FR_A_PRE), n_()), 0.1)
                return opt('PP(P("%s"), %s, %s)' % (p, rng.choice(FR_D), n_()), 0.1)
            if rng.random() < 0.15:
                return opt('PP(P("%s"), PP(P("%s"), %s))' % (rng.choice(["jusque", "de", "pour", "que"] if False else ["jusque", "de", "pour"]), rng.choice(["à", "de"]), np(depth + 1, False)), 0.1)
            return opt('PP(P("%s"), %s)' % (p, np(depth + 1)), 0.1)

        def vp(depth=0, rel=False):
            v = 'V("%s")' % rng.choice(FR_V)
            if rng.random() < 0.6:
                v += '.t("%s")' % rng.choice(FR_T)
            parts = [v]
            if rng.random() < 0.7:
                parts.append(np(depth + 1))
            if rng.random() < 0.35:
                parts.append(pp(depth + 1))
            if rng.random() < 0.15:
                parts.append('Adv("%s")' % rng.choice(["ici", "aujourd'hui", "hier", "encore", "aussi", "bien"]))
            if rng.random() < 0.1:
                parts.append('SP(C("%s"), %s, VP(V("%s")))' % (rng.choice(FR_C), subj(), rng.choice(FR_V)))
            if depth < 1 and rng.random() < 0.12:
                return 'VP(V("%s"), VP(V("%s").t("b"), %s))' % (rng.choice(FR_GOV), rng.choice(FR_INF),
                                                               rng.choice([np(depth + 1), 'Pro("moi").c("acc").pe(%d)' % rng.choice([1, 2])]))
            return "VP(%s)" % ", ".join(parts)

        def subj():
            u = rng.random()
            if u < 0.35:
                return 'Pro("je").pe(%d)%s' % (rng.choice([1, 2, 3]), rng.choice(['', '', '.n("p")']))
            if u < 0.45:
                return 'Pro("%s")' % rng.choice(["ce", "ça", "on", "lui", "qui"])
            return np(0)

        def typ():
            if rng.random() < 0.45:
                return ""
            d = {}
            if rng.random() < 0.45:
                d["neg"] = rng.choice([True, True, "plus", "jamais", "guère"])
            if rng.random() < 0.25:
                d["pas"] = True
            if rng.random() < 0.3:
                d["int"] = rng.choice(["yon", "wos", "wod", "woi", "wad", "whe", "why", "whn", "how", "muc", "tag"])
            if rng.random() < 0.15:
                d["mod"] = rng.choice(["poss", "perm", "nece", "obli", "will"])
            if rng.random() < 0.1:
                d["prog"] = True
            if rng.random() < 0.08:
                d["exc"] = True
            if rng.random() < 0.08:
                d["refl"] = True
            return ".typ(%r)" % (d,) if d else ""

        if rng.random() < 0.3:
            # dependency notation
            def dnp(rel, depth=0):
                parts = ['N("%s")%s' % (rng.choice(FR_N), rng.choice(['', '', '.n("p")'])), 'det(%s)' % rng.choice(FR_D)]
                if rng.random() < 0.4:
                    parts.append('mod(A("%s")).pos("pre")' % rng.choice(FR_A_PRE))
                if rng.random() < 0.25:
                    parts.append('mod(A("%s"))' % rng.choice(FR_A_POST))
                if depth < 1 and rng.random() < 0.3:
                    parts.append('mod(P("%s"), %s)' % (rng.choice(FR_P), dnp("comp", depth + 1)))
                s = "%s(%s)" % (rel, ", ".join(parts))
                if rng.random() < 0.15:
                    s += ".pro()"
                return opt(s, 0.1)
            v = 'V("%s")' % rng.choice(FR_V)
            if rng.random() < 0.6:
                v += '.t("%s")' % rng.choice(FR_T)
            parts = [v]
            parts.append(dnp("subj") if rng.random() < 0.6 else 'subj(Pro("je").pe(%d))' % rng.choice([1, 2, 3]))
            if rng.random() < 0.7:
                parts.append(dnp("comp"))
            if rng.random() < 0.4:
                parts.append('comp(P("%s"), %s)' % (rng.choice(FR_P), dnp("comp", 1)))
            return "root(%s)%s" % (", ".join(parts), typ())
        u = rng.random()
        if u < 0.12:
            return np(0)
        if u < 0.22:
            return pp(0)
        if u < 0.3:
            return 'SP(C("%s"), %s, %s)' % (rng.choice(FR_C), subj(), vp(0))
        if u < 0.36:
            return 'S(CP(C("%s"), %s, %s), %s)' % (rng.choice(["et", "ou"]), np(1), np(1), vp(0))
        return opt("S(%s, %s)%s" % (subj(), vp(0), typ()), 0.1)
    # English
    def np_e(depth=0):
        parts = [opt(rng.choice(EN_D), 0.1)]
        if rng.random() < 0.5:
            parts.append(opt('A("%s")' % rng.choice(EN_A), 0.08))
        if rng.random() < 0.1:
            parts.append('NO(%d)%s' % (rng.choice([1, 8, 11, 18, 80]), rng.choice(['', '.dOpt({"nat":True})', '.dOpt({"ord":True})'])))
        parts.append(opt('N("%s")' % rng.choice(EN_N), 0.12))
        if depth < 2 and rng.random() < 0.25:
            parts.append('PP(P("%s"), %s)' % (rng.choice(["of", "in", "on", "with", "for"]), np_e(depth + 1)))
        s = "NP(%s)" % ", ".join(parts)
        if rng.random() < 0.1:
            s += ".pro()"
        if rng.random() < 0.12:
            s += '.n("p")'
        return opt(s, 0.15)

    def vp_e():
        v = 'V("%s")' % rng.choice(EN_V)
        if rng.random() < 0.5:
            v += '.t("%s")' % rng.choice(["p", "ps", "f", "c"])
        parts = [v]
        if rng.random() < 0.75:
            parts.append(np_e(1))
        if rng.random() < 0.3:
            parts.append('PP(P("%s"), %s)' % (rng.choice(["of", "in", "on", "with", "for"]), np_e(1)))
        return "VP(%s)" % ", ".join(parts)

    def typ_e():
        if rng.random() < 0.4:
            return ""
        d = {}
        if rng.random() < 0.5:
            d["neg"] = True
        if rng.random() < 0.5:
            d["contr"] = True
        if rng.random() < 0.25:
            d["pas"] = True
        if rng.random() < 0.3:
            d["int"] = rng.choice(["yon", "wos", "wod", "woi", "wad", "whe", "why", "whn", "how", "muc", "tag"])
        if rng.random() < 0.2:
            d["mod"] = rng.choice(["poss", "perm", "nece", "obli", "will"])
        if rng.random() < 0.15:
            d["perf"] = True
        if rng.random() < 0.15:
            d["prog"] = True
        return ".typ(%r)" % (d,) if d else ""
    if rng.random() < 0.3:
        def dnp_e(rel):
            parts = ['N("%s")' % rng.choice(EN_N), 'det(%s)' % rng.choice(EN_D)]
            if rng.random() < 0.5:
                parts.append('mod(A("%s")).pos("pre")' % rng.choice(EN_A))
            s = "%s(%s)" % (rel, ", ".join(parts))
            if rng.random() < 0.1:
                s += ".pro()"
            return opt(s, 0.1)
        v = 'V("%s")' % rng.choice(EN_V)
        parts = [v, dnp_e("subj") if rng.random() < 0.6 else 'subj(Pro("I").pe(%d))' % rng.choice([1, 2, 3])]
        if rng.random() < 0.8:
            parts.append(dnp_e("comp"))
        return "root(%s)%s" % (", ".join(parts), typ_e())
    u = rng.random()
    if u < 0.2:
        return np_e(0)
    subj_e = np_e(0) if rng.random() < 0.6 else 'Pro("I").pe(%d)%s' % (rng.choice([1, 2, 3]), rng.choice(['', '.n("p")']))
    return opt("S(%s, %s)%s" % (subj_e, vp_e(), typ_e()), 0.1)


FR_GOV = ["vouloir", "aller", "pouvoir", "devoir", "savoir", "venir"]
FR_INF = ["aimer", "écouter", "aider", "entendre", "ouvrir", "habiter", "honorer", "oublier", "haïr", "voir", "manger"]
DT_OPTS = ['', '.dOpt({"hour":False,"minute":False,"second":False})', '.dOpt({"day":False,"hour":False,"minute":False,"second":False})',
           '.dOpt({"det":False})', '.dOpt({"nat":False})', '.dOpt({"year":False,"hour":False,"minute":False,"second":False})',
           '.dOpt({"year":False,"month":False,"date":False,"day":False})', '.dOpt({"rtime":True})']


def family_sentences():
    """structure families run completely in both tiers (each is the only way to reach a code path):
    (i) a consonant-initial governing verb + a NESTED infinitive VP / comp whose clitic object (from .pro() or
        Pro(..).c("acc")) was elided before a vowel-initial infinitive at the inner level (doPronounPlacement must not
        move it), with negation / question, both notations;
    (ii) à/de immediately followed by a DT (realized with its determiner: the date guard of the look-ahead) and then
        vowel-initial material in the same flattened list"""
    L = []
    objs = ['NP(D("le"),N("enfant")).pro()', 'NP(D("le"),N("fille")).pro()', 'NP(D("le"),N("ami")).n("p").pro()',
            'Pro("moi").c("acc").pe(1)', 'Pro("moi").c("acc").pe(2)', 'NP(D("le"),N("eau"))',
            # an elided clitic that carries a tag / punctuation (the `elided` guard must look at the word)
            'NP(D("le"),N("enfant")).pro().tag("i")', 'NP(D("ce"),N("usine")).pro().tag("i").a(".")']
    dobjs = ['comp(N("enfant"),det(D("le"))).pro()', 'comp(N("fille"),det(D("le"))).pro()', 'comp(Pro("moi").c("acc").pe(1))',
             'comp(N("eau"),det(D("le")))']
    subjs = ['Pro("lui").c("nom")', 'NP(D("le"),N("enfant"))', 'Pro("je").pe(2)', 'Pro("je").pe(1)']
    dsubjs = ['subj(Pro("lui").c("nom"))', 'subj(N("enfant"),det(D("le")))', 'subj(Pro("je").pe(1))']
    typs = ['', '.typ({"neg":True})', '.typ({"int":"yon"})', '.typ({"neg":"plus"})']
    for g in FR_GOV:
        for i, inf in enumerate(FR_INF):
            for k, o in enumerate(objs):
                for t in (typs if (i + k) % 2 == 0 else typs[:2]):
                    L.append(("fr", 'S(%s, VP(V("%s"), VP(V("%s").t("b"), %s)))%s' % (subjs[(i + k) % len(subjs)], g, inf, o, t)))
            for k, o in enumerate(dobjs):
                for t in typs[:2]:
                    L.append(("fr", 'root(V("%s"), %s, comp(V("%s").t("b"), %s))%s' % (g, dsubjs[(i + k) % len(dsubjs)], inf, o, t)))
    # (iii) quoted text / bare strings beginning with a ligature after elidable, euphonic, contractable words
    for w in LIG_WORDS + ["Œuvre", "Œdipe", "Æschne"]:
        for q in ('Q("%s")' % w, '"%s"' % w, 'Q("%s").tag("i")' % w, 'Q("%s").b("(").tag("b")' % w):
            L.append(("fr", 'NP(D("le"), %s)' % q))
            L.append(("fr", 'NP(D("ce"), %s)' % q))
            L.append(("fr", 'NP(D("mon").pe(1).g("f"), %s)' % q))
            L.append(("fr", 'NP(D("le"), A("beau"), %s)' % q))
            L.append(("fr", 'PP(P("de"), %s)' % q))
            L.append(("fr", 'PP(P("à"), NP(D("le"), %s))' % q))
            L.append(("fr", 'S(Pro("je").pe(1), VP(V("admirer"), NP(D("le"), %s))).typ({"neg": True})' % q))
            L.append(("fr", 'S(Pro("je").pe(3), VP(V("dire"), SP(C("que"), %s, VP(V("partir")))))' % q))
            if not q.startswith('"'):
                L.append(("fr", 'root(V("manger"), subj(Pro("je").pe(3)), comp(%s, det(D("de"))))' % q))
                L.append(("fr", 'root(V("admirer"), subj(Pro("je").pe(1)), comp(%s, det(D("le"))))' % q))
    # (iv) transformations that insert function words (de, que, ne, se, en train de) before a vowel-initial verb
    for v in ("aimer", "écouter", "ouvrir", "attendre", "habiter", "honorer", "haïr", "manger"):
        for k, sj in enumerate(('Pro("je").pe(1)', 'Pro("je").pe(3)', 'NP(D("le"), N("enfant"))')):
            for t in ('{"prog": True}', '{"prog": True, "neg": True}', '{"prog": True, "int": "yon"}', '{"mod": "poss", "neg": True}',
                      '{"mod": "nece"}', '{"neg": True}', '{"refl": True}', '{"pas": True}', '{"prog": True, "mod": "perm"}'):
                L.append(("fr", 'S(%s, VP(V("%s"), NP(D("le"), N("arbre")))).typ(%s)' % (sj, v, t)))
                if k == 0:
                    L.append(("fr", 'root(V("%s"), subj(%s), comp(N("arbre"), det(D("le")))).typ(%s)' % (v, sj, t)))
    for n in ("apple", "hour", "user", "honest man", "European"):
        for t in ('', '.typ({"prog": True})', '.typ({"neg": True, "contr": True})', '.typ({"pas": True})'):
            nn = 'N("%s")' % n if " " not in n else 'A("honest"), N("man")'
            L.append(("en", 'S(Pro("I").pe(3).g("m"), VP(V("love"), NP(D("a"), %s)))%s' % (nn, t)))
    d1, d2 = 'DT("2024-05-13T10:30:00")', 'DT("2024-05-17T08:00:00")'
    after = ['Adv("environ")', 'Adv("ici")', 'Adv("encore")', 'Adv("aussi")', 'A("exact")', 'Adv("hier")', 'Adv("heureusement")', 'Adv("demain")',
             'PP(P("à"),%s%%s)' % d2, 'PP(P("à"),NP(D("le"),N("aube")))', 'NP(D("un"),N("an"))']
    for p in ("de", "à", "pour", "jusque"):
        for o in DT_OPTS:
            for a in after:
                a1 = a % o if "%s" in a else a
                L.append(("fr", 'PP(P("%s"),%s%s,%s)' % (p, d1, o, a1)))
                L.append(("fr", 'S(Pro("je").pe(1),VP(V("revenir"),PP(P("%s"),%s%s,%s)))' % (p, d1, o, a1)))
            L.append(("fr", 'PP(P("%s"),%s%s)' % (p, d1, o)))
    return L


# an elided form followed by a blank: the word it was elided for is gone / was never there ("de l' lundi", "à l' lundi")
DETACHED = re.compile(r"(?<![\w'-])(?:[ldjmtsn]|qu|jusqu|lorsqu|puisqu|quoiqu)' ", re.I)


TERMINALS = {"N", "A", "Pro", "D", "V", "Adv", "P", "C", "Q", "NO", "DT"}
NONTERMINALS = {"S", "SP", "NP", "AP", "VP", "AdvP", "PP", "CP", "root", "subj", "det", "mod", "comp", "coord"}


def with_lang(src, lang):
    """the same expression with the language given explicitly to every constructor: N("x") -> N("x","fr"),
    NP(…) -> NP(…, lang="fr")"""
    tree = ast.parse(src, mode="eval")
    for n in ast.walk(tree):
        if isinstance(n, ast.Call) and isinstance(n.func, ast.Name):
            if n.func.id in TERMINALS and len(n.args) == 1 and not n.keywords:
                n.args.append(ast.Constant(lang))
            elif n.func.id in NONTERMINALS and not any(k.arg == "lang" for k in n.keywords):
                n.keywords.append(ast.keyword(arg="lang", value=ast.Constant(lang)))
    return ast.unparse(ast.fix_missing_locations(tree))


def realize_chunk(items):
    """items: [(lang, setup, src, mode)] -> [(lang, src, text|EXC, calls, texts, mode)].  mode "mono": built and
    realized under `lang`; "cross": built under `lang`, realized while the OTHER language is current; "explicit": built
    and realized under the other language, the language given explicitly to every constructor"""
    ns0 = P()["ns"]
    c = _W["cap"]
    c.keep_calls = True
    c.keep_texts = True
    res = []
    cache = _W.setdefault("ns_cache", {})
    for item in items:
        lang, setup, src = item[0], item[1], item[2]
        mode = item[3] if len(item) > 3 else "mono"
        other = "en" if lang == "fr" else "fr"
        set_lang(lang)
        ns = cache.get((lang, setup))
        if ns is None:
            ns = dict(ns0)
            if setup:
                try:
                    exec(setup, ns)
                except Exception:  # noqa
                    pass
            cache[(lang, setup)] = ns
        set_lang(other if mode == "explicit" else lang)
        c.clear()
        try:
            obj = eval(with_lang(src, lang) if mode == "explicit" else src, ns)
            if mode == "cross":
                set_lang(other)
            c.clear()
            txt = obj.realize()
        except Exception as e:  # noqa
            txt = "EXC:" + type(e).__name__
        res.append((lang, src, txt, c.calls, c.texts, mode))
        c.clear()
    set_lang("fr")
    return res


# ------------------------------------------------------------------------------------------------------------
# refutation witnesses of Props/C06 (replayed on the real code on every run)
# ------------------------------------------------------------------------------------------------------------
WITNESSES = [
    ("elision_pass_settles_refuted, tree_settled_refuted", "fr", 'PP(P("de").cap(True), NP(D("le"), N("chat")))'),
    ("text_settled_refuted", "fr", 'PP(P("de"), NP(D("un").n("p"), N("ami")))'),
    ("an_iff_rule_refuted", "en", 'NP(D("a"), D("a"), N("apple"))'),
    ("multiword lexeme (outside the token-level model)", "fr", 'SP(C("parce que"), Pro("lui").c("nom"), VP(V("aimer")))'),
    ("multiword lexeme (outside the token-level model)", "fr", 'PP(P("quant à"), NP(D("le"), N("chat")))'),
]


# ------------------------------------------------------------------------------------------------------------
# run
# ------------------------------------------------------------------------------------------------------------

def replay_calls(ctx, calls, kind, dist):
    """captured real doElision calls -> model; returns number replayed"""
    lines, keep = [], []
    seen = set()
    for cl in calls:
        if not in_alphabet(cl["toks"]) or any(t["hw"] == "x" or t["hr"] == "x" for t in cl["toks"]):
            dist["captured_out_of_alphabet"] = dist.get("captured_out_of_alphabet", 0) + 1
            continue
        ml = {"op": "elide", "lang": cl["lang"], "contr": cl["contr"], "toks": [cap.model_tok(f) for f in cl["toks"]]}
        key = core.canon(ml)
        if key in seen:
            continue
        seen.add(key)
        lines.append(ml)
        keep.append(cl)
    model = safe_driver(ctx, lines)
    # the hypotheses of the _partial theorems (TokWF, BwdOK, Tame, EuphLower) evaluated by the model on the INPUT of
    # each real call, and `settled` on the real OUTPUT: inside the hypotheses the theorem predicts "settled"
    hyps = safe_driver(ctx, [dict(ml, op="hyps") for ml in lines])
    outs = []
    for ml, cl in zip(lines, keep):
        if "r" in cl["out"] and all(isinstance(r, str) for r in cl["out"]["r"]):
            outs.append({"op": "settled", "lang": ml["lang"],
                         "toks": [dict(t, r=r) for t, r in zip(ml["toks"], cl["out"]["r"])]})
        else:
            outs.append({"op": "settled", "lang": ml["lang"], "toks": []})
    sett = safe_driver(ctx, outs)
    for ml, m, cl, hy, st in zip(lines, model, keep, hyps, sett):
        if m is None or hy is None or st is None or "driver_error" in m:
            oracle_call(ctx, kind, cl["lang"], cl["toks"], cl["out"], {"kind": "toks", "line": ml, "sentence": cl.get("src")})
            continue
        ctx.cov["traces_validated_against_impl"] += 1
        ch = changed(cl["toks"], cl["out"])
        ctx.count(ml, cl["out"], trivial=not ch)
        dist[kind + ("_rewriting" if ch else "_identity")] = dist.get(kind + ("_rewriting" if ch else "_identity"), 0) + 1
        if core.canon(m) != core.canon(cl["out"]):
            ctx.diff({"captured": kind, **ml}, m, cl["out"])
        inside = all(hy.get(k) for k in ("wf", "bwd", "tame"))
        k2 = kind + ("_inside_partial_hyps" if inside else "_outside_partial_hyps:" + ",".join(k for k in ("wf", "bwd", "tame") if not hy.get(k)))
        dist[k2] = dist.get(k2, 0) + 1
        if inside and ("err" in cl["out"] or not st.get("ok")):
            # the theorem (about the model) says settled / no exception: the real code disagrees
            ctx.diff({"captured": kind, "theorem": "elision_pass_settles_partial / an_iff_rule_partial", **ml},
                     {"predicted": "no exception, settled output"}, cl["out"])
        oracle_call(ctx, kind, cl["lang"], cl["toks"], cl["out"], {"kind": "toks", "line": ml, "sentence": cl.get("src")})
    return len(lines)


def cap_failures(ctx, per_sig=6):
    """core keeps at most 500 failures: keep a few per signature so that a rare signature is never crowded out"""
    if getattr(ctx, "_c06_capped", False):
        return
    ctx._c06_capped = True
    orig = ctx.fail
    counts = ctx.notes.setdefault("failures_per_signature", {})

    def fail(sig, inp, detail):
        counts[sig] = counts.get(sig, 0) + 1
        if counts[sig] <= per_sig:
            orig(sig, inp, detail)
    ctx.fail = fail


def run(ctx, deep=False):
    cap_failures(ctx)
    t0 = time.time()
    rng = ctx.rng
    thorough = ctx.tier == "thorough" or deep
    dist = {}
    P()
    # ---------------------------------------------------------------- (a) token lists
    lines = structured_elide_lines() + gen_elide_lines(rng, 60000 if thorough else 6000)
    mlines, answers, factss = [], [], []
    for l in lines:
        ml, a, f = impl_elide(l)
        mlines.append(ml)
        answers.append(a)
        factss.append(f)
    sel = [i for i, ml in enumerate(mlines) if in_alphabet(ml["toks"]) and not any(t["hw"] == "x" or t["hr"] == "x" for t in ml["toks"])]
    model = safe_driver(ctx, [mlines[i] for i in sel])
    for i, m in zip(sel, model):
        if m is None or "driver_error" in m:
            oracle_call(ctx, "elide", lines[i]["lang"], factss[i], answers[i], {"kind": "toks", "line": lines[i]})
            continue
        ctx.cov["traces_validated_against_impl"] += 1
        ch = changed(factss[i], answers[i])
        ctx.count(lines[i], answers[i], trivial=not ch)
        k = "a_%s_%s" % (lines[i]["lang"], "err" if "err" in answers[i] else ("rewriting" if ch else "identity"))
        dist[k] = dist.get(k, 0) + 1
        if core.canon(m) != core.canon(answers[i]):
            ctx.diff(lines[i], m, answers[i])
        oracle_call(ctx, "elide", lines[i]["lang"], factss[i], answers[i], {"kind": "toks", "line": lines[i]})
    # settled: model op vs the Python statement, on inputs and outputs
    slines, sexp = [], []
    for i in sel:
        for toks in ([cap.model_tok(f) for f in factss[i]],
                     ([cap.model_tok(g) for g in after_facts(factss[i], answers[i])] if "r" in answers[i] else None)):
            if toks is None or any(t["hw"] == "c" for t in toks):
                continue
            lang = lines[i]["lang"]
            slines.append({"op": "settled", "lang": lang, "toks": toks})
            ok, _ = settled_py(lang, toks)
            ok2, _ = settled_py(lang, [t for t in toks if t["r"] != ""])
            sexp.append({"ok": ok, "text_ok": ok2})
    for l, m, e in zip(slines, safe_driver(ctx, slines), sexp):
        if m is None:
            continue
        ctx.cov["traces_validated_against_impl"] += 1
        if core.canon(m) != core.canon(e):
            ctx.diff(l, m, {"python_statement_of_the_property": e})
    dist["settled_lines"] = len(slines)
    # sepWord: model vs the real compiled regexes; anRule: model vs the real doElision
    from pyrealb.ConstituentFr import ConstituentFr
    from pyrealb.ConstituentEn import ConstituentEn
    strs = set()
    for ml in mlines:
        for t in ml["toks"]:
            if isinstance(t["r"], str):
                strs.add(t["r"])
    pool = "ab é<>'- ,(x\n\tÀ_9«» "
    for _ in range(4000 if thorough else 1500):
        strs.add("".join(rng.choice(pool) for _ in range(rng.randint(0, 9))))
    strs = sorted(s for s in strs if in_alphabet([{"r": s}]))
    sl = [{"op": "sep", "lang": lang, "s": s} for s in strs for lang in ("fr", "en")]
    for l, m in zip(sl, safe_driver(ctx, sl)):
        rx = ConstituentFr.sepWordREC if l["lang"] == "fr" else ConstituentEn.sepWordREC
        g = rx.match(l["s"])
        a = {"g": [g.group(1), g.group(2), g.group(3)]}
        g2 = cap.SEP.match(l["s"])
        ctx.cov["traces_validated_against_impl"] += 1
        ctx.count(l, a, trivial=(g.group(1) == "" and g.group(3) == ""))
        if m is not None and core.canon(m) != core.canon(a):
            ctx.diff(l, m, a)
        if [g2.group(1), g2.group(2), g2.group(3)] != a["g"]:
            ctx.diff(l, {"harness_SEP": [g2.group(1), g2.group(2), g2.group(3)]}, a)
    dist["sep_lines"] = len(sl)
    dist["t_a"] = round(time.time() - t0, 1)

    # ---------------------------------------------------------------- witnesses of the refuted clauses
    c = cap.install(cap.Capture())
    for name, lang, src in WITNESSES:
        set_lang(lang)
        c.clear()
        try:
            with Quiet():
                txt = eval(src, dict(P()["ns"])).realize()
        except Exception as e:  # noqa
            txt = "EXC:" + type(e).__name__
        inp = {"kind": "expr", "lang": lang, "src": src, "witness_of": name}
        n_before = len(ctx.failures)
        for cl in c.calls:
            oracle_call(ctx, "witness", cl["lang"], cl["toks"], cl["out"], inp)
        for tx in c.texts:
            if clean_texts(tx["toks"]):
                for sig, det in text_violations(tx["lang"], tx["toks"]):
                    ctx.fail(sig, inp, "final text %r: %s" % (txt, det))
        dist["witness:" + name + ":" + src] = "violates on the real code" if len(ctx.failures) > n_before else "NO LONGER VIOLATES (%r)" % txt
        if len(ctx.failures) == n_before:
            ctx.notes.setdefault("witness_no_longer_fails", []).append(src)
    cap.install(None)

    # ---------------------------------------------------------------- (b) sweep and (c) sentences in worker processes
    t1 = time.time()
    firsts = resolve_first()
    set_lang("fr")
    lexfr = P()["getLexicon"]()
    if thorough:
        fr_forms = lexicon_forms("fr", ctx)
        fr_vh = [f for f in fr_forms if f[0][0].lower() in VOW + "h"]
        en_forms = [f for f in lexicon_forms("en", ctx) if f[3] in ("N", "A")]
        dist["fr_forms_total"] = len(fr_forms)
        dist["fr_forms_vowel_or_h"] = len(fr_vh)
        dist["en_forms_N_A"] = len(en_forms)
        sweep_forms = with_source(fr_vh)
        en_sweep = with_source(en_forms)
        contr_forms = with_source(stratified(rng, fr_forms, 60, lambda f: (f[3], f[0][0].lower(), lex_h(lexfr, f[2], f[3]))))
    else:
        qf = quick_forms(rng, "fr", 2)
        sweep_forms = [f for f in qf if f[0][0].lower() in VOW + "h"]
        contr_forms = stratified(rng, qf, 4, lambda f: (f[3], f[0][0].lower(), lex_h(lexfr, f[2], f[3])))
        en_sweep = quick_forms(rng, "en", 3)
    sweep_forms = ligature_forms() + sweep_forms
    contr_forms = [f for f in ligature_forms(capitals=False) if f[1].startswith("Q(")] + contr_forms
    dist["sweep_fr_forms"] = len(sweep_forms)
    dist["sweep_en_forms"] = len(en_sweep)
    dist["sweep_contr_forms"] = len(contr_forms)
    en_items = [(f[0], f[1], (f[0] == f[2] and f[3] == "N")) for f in en_sweep]
    # sentences
    seeds = seed_expressions()
    n_gen = 12000 if thorough else 2600
    sent = [(lang, setup, src) for (lang, _, setup, src) in seeds]
    for k in range(n_gen):
        lang = "fr" if rng.random() < 0.7 else "en"
        sent.append((lang, "", gen_sentence(rng, lang)))
    fam = family_sentences()
    sent.extend((lang, "", src) for (lang, src) in fam)
    # the same sentences built under their language and realized while the other one is current, and with the language
    # given explicitly to every constructor under the other one: same text, same Settled test
    cross = [(lang, src) for (lang, src) in fam]
    cross += [(lang, src) for (lang, setup, src) in sent[len(seeds):len(seeds) + (3000 if thorough else 700)] if not setup]
    for (lang, src) in cross:
        sent.append((lang, "", src, "cross"))
        sent.append((lang, "", src, "explicit"))
    dist["sentences_cross_language"] = 2 * len(cross)
    dist["sentences_families(nested infinitive, à/de + DT)"] = len(fam)
    dist["sentences_seed"] = len(seeds)
    dist["sentences_generated"] = n_gen
    total_pairs = len(sweep_forms) * len(firsts)
    se = max(1, total_pairs // (120000 if thorough else 20000))
    mp = multiprocessing.get_context("fork")
    with mp.Pool(min(16, os.cpu_count() or 4), initializer=worker_init) as pool:
        de = 25 if thorough else 4
        r_fr = pool.map_async(sweep_fr_chunk, [(ch, firsts, se, de) for ch in chunks(sweep_forms, 400)])
        r_en = pool.map_async(sweep_en_chunk, [(ch, 7 if thorough else 3, de) for ch in chunks(en_items, 800)])
        r_ct = pool.map_async(sweep_contr_chunk, [(ch, 11 if thorough else 3, de) for ch in chunks(contr_forms, 100)])
        r_se = pool.map_async(realize_chunk, chunks(sent, 60))
        res_fr, res_en, res_ct, res_se = r_fr.get(), r_en.get(), r_ct.get(), r_se.get()
    cap_calls = []
    for name, res in (("sweep_fr", res_fr), ("sweep_en", res_en), ("sweep_contr", res_ct)):
        n = nt = 0
        for (a, b, fails, calls) in res:
            n += a
            nt += b
            for sig, inp, det in fails:
                ctx.fail(sig, inp, det)
            cap_calls.extend(calls)
        dist[name + "_pairs"] = n
        dist[name + "_rewritten"] = nt
        ctx.cov["evaluations"] += n
        ctx.cov["traces_validated_against_impl"] += n
    dist["t_b"] = round(time.time() - t1, 1)
    dist["sweep_calls_replayed"] = replay_calls(ctx, cap_calls, "sweep_call", dist)
    if thorough:
        ctx.exhaustive = True
        ctx.notes["exhaustive_scope"] = ("every first word of %s x every key of buildLemmataMap('fr') beginning with a vowel or h "
                                         "(%d form/terminal pairs) through PP(F,X); D('a') x every N/A form of buildLemmataMap('en') (%d)"
                                         % (sorted(firsts), len(sweep_forms), len(en_sweep)))
    # (c)
    t2 = time.time()
    all_calls, n_exc, n_txt = [], 0, 0
    text_lines, text_meta = [], []
    mono_text = {}
    for chunk in res_se:
        for (lang, src, txt, calls, texts, mode) in chunk:
            if mode == "mono":
                mono_text[(lang, src)] = txt
    for chunk in res_se:
        for (lang, src, txt, calls, texts, mode) in chunk:
            inp = {"kind": "expr", "lang": lang, "src": src}
            if mode != "mono":
                inp["mode"] = mode + (": built under %s, realized while the other language is current" % lang if mode == "cross"
                                      else ": language given to every constructor, the other language current")
                # every token of these sentences is a word of `lang`, whatever language its terminal was given
                for tx in texts:
                    for f in tx["toks"]:
                        f["fr"] = (lang == "fr")
                want = mono_text.get((lang, src))
                if want is not None and not want.startswith("EXC:") and not txt.startswith("EXC:") and txt != want:
                    dist["cross_language_text_differs"] = dist.get("cross_language_text_differs", 0) + 1
                    if len(ctx.notes.setdefault("cross_language_differences", [])) < 5:
                        ctx.notes["cross_language_differences"].append({"src": src, "mode": mode, "mono": want, "got": txt})
            if txt.startswith("EXC:"):
                n_exc += 1      # C07's business unless doElision raised (seen in the captured call)
            elif lang == "fr" and 'Q(' not in src and DETACHED.search(txt):
                ctx.fail("fr:F2:elided-form-followed-by-blank", inp, "realized %r" % txt)
            for cl in calls:
                cl["src"] = src
            all_calls.extend(calls)
            for tx in texts:
                if not in_alphabet(tx["toks"]) or not clean_texts(tx["toks"]):
                    continue
                n_txt += 1
                for sig, det in text_violations(tx["lang"], tx["toks"]):
                    ctx.fail(sig, inp, "final text %r: %s" % (txt, det))
                toks = [cap.model_tok(f) for f in tx["toks"]]
                text_lines.append({"op": "settled", "lang": tx["lang"], "toks": toks})
                ok, _ = settled_py(tx["lang"], toks)
                ok2, _ = settled_py(tx["lang"], [t for t in toks if t["r"] != ""])
                text_meta.append({"ok": ok, "text_ok": ok2})
    for l, m, e in zip(text_lines, safe_driver(ctx, text_lines), text_meta):
        if m is None:
            continue
        ctx.cov["traces_validated_against_impl"] += 1
        if core.canon(m) != core.canon(e):
            ctx.diff(l, m, {"python_statement_of_the_property": e})
    dist["sentences_raising(any cause)"] = n_exc
    dist["final_texts_checked"] = n_txt
    # failures found in captured calls are reported with the sentence as input
    by_src = {}
    for cl in all_calls:
        by_src.setdefault(core.canon([cl["lang"], cl["contr"], cl["toks"]]), cl)
    dist["sentence_calls_captured"] = len(all_calls)
    dist["sentence_calls_replayed"] = replay_calls(ctx, list(by_src.values()), "sentence_call", dist)
    dist["t_c"] = round(time.time() - t2, 1)
    ctx.notes["distribution"] = dist
    ctx.notes["first_words"] = {w: s[0] for w, s in firsts.items()}


def clean_texts(toks):
    return all(isinstance(t["r"], str) and "\n" not in t["r"] and t["hw"] not in ("c", "x") for t in toks)


def search(ctx):
    """deeper search on the implementation when a proof, the translator or the correspondence broke: the complete sweep"""
    if ctx.tier != "thorough" and not getattr(ctx, "_searched", False):
        ctx._searched = True
        ctx.failures_before = len(ctx.failures)
        run(ctx, deep=True)


def replay(path):
    d = json.load(open(path, encoding="utf-8"))
    inp = d.get("input", d)
    if "input" in inp and isinstance(inp["input"], dict):
        inp = inp["input"]
    P()
    if inp.get("kind") == "toks":
        line = inp["line"]
        if "mk" in (line["toks"][0] if line["toks"] else {}):
            ml, a, f = impl_elide(line)
            print(json.dumps({"input": [x["r"] for x in f], "real_doElision": a}, ensure_ascii=False))
        else:
            print(json.dumps({"captured_call": line, "note": "replay the sentence given in the detail"}, ensure_ascii=False))
        return 0
    lang, src = inp["lang"], inp["src"]
    mode = (inp.get("mode") or "mono").split(":")[0]
    other = "en" if lang == "fr" else "fr"
    set_lang(other if mode == "explicit" else lang)
    try:
        obj = eval(with_lang(src, lang) if mode == "explicit" else src, dict(P()["ns"]))
        if mode == "cross":
            set_lang(other)
        txt = obj.realize()
    except Exception as e:  # noqa
        txt = "EXC:%s: %s" % (type(e).__name__, e)
    print(json.dumps({"lang": lang, "src": src, "realized": txt}, ensure_ascii=False))
    return 0
