"""C03 — agreement.  Model: lean/Pyrealb/Model/Heap*.lean (store) + Model/AgreeSpec.lean (declarative specification);
theorems: lean/Pyrealb/Props/C03.lean.

Correspondence (a): construction histories (generated structures, whole-lexicon lexical choices, options in every order
for <= 4 late options, dynamic add() bottom-up and top-down) are run on the REAL pyrealb (harness/impl/snapshot.World) and
on the store model (driver op `agree`): the partition of the nodes by record identity, the own props, the record contents
and getProp(pe/n/g) of every node must coincide; the pairs (node, controller) that the DECLARATIVE specification requires
to share a record after each link run are checked directly on the live Python objects (`x.peng is y.peng`).
Direct oracle (b): the metamorphic property itself on the implementation (harness/impl/agreegen.run_job).
"""
import json
import multiprocessing
import os
import time

from harness import core
from harness.impl import agreegen as G

META = {
    "ops": "agree",
    "driver": "drv_agree",
    "translators": ["typconsts"],
    "technique": "Lean 4 proof on the store model (star-shaped runs of assignments; all child lists) + correspondence "
                 "with the live object graph + metamorphic oracle on the implementation",
    "level_text": "Kernel-checked theorems, for every store (every child list of any length, every record content): after "
                  "linkProperties of an NP / S / SP / dependency node every node of the declaratively specified agreement class "
                  "holds the controller's record (np_link, s_link, dep_link [dependents forming a tree]) and nothing else is "
                  "re-pointed elsewhere; the number imposed by a numeral / English 'no' (numeral_number); explicit features win "
                  "whatever is written later through another node (getProp_local_wins); a later setProp on the controller is read "
                  "by every linked dependent without own value (controller_update_propagates); dependents_read_controller is "
                  "REFUTED (own value of the controller vs shared record; witness reachable by a history, replayed on the real "
                  "code) with its partial form. Tie: model AND specification are compared with the live Python object graph on "
                  "generated histories; the metamorphic form oracle runs on the real realizer.",
    "level_note": "Trusted: Lean kernel; the store model of Model/Heap* (tied by correspondence only); realization-time writes "
                  "to shared records (cpReal, decline of pronouns, passive) are covered by the oracle, not by theorems; "
                  "setPengRecursive is outside the modelled fragment.",
    "rule": "generated NP / S / SP / VP / subj-det-mod-comp-coord structures in both languages, lexical items from the whole "
            "lexicons stratified by gender (m/f/x/none) x regular/invariable/always-plural, features on any node, late options "
            "in every order for <= 4 options (sampled beyond), dynamic add() bottom-up/top-down; non-trivial = a history whose "
            "oracle compared at least one dependent form and whose (history, answer) pair is new",
    "assumptions": ["A_capture: the form of a terminal is observed at the return of Terminal.real (before the elision / "
                    "formatting of the enclosing phrase), in the tree and alone alike"],
    "trusted": ["harness/impl/agreegen.py: the grammar of generated structures states which word depends on which controller"],
}

WORKERS = min(16, os.cpu_count() or 4)


# ------------------------------------------------------------------------------------------------- special strata

def _fixed_jobs(rng, tier):
    """small fixed panels: the shapes of DESIGN §9 / of the task statement, whatever the seed"""
    jobs = []

    def tree_job(lang, notation, build, strat=None, modelable=True, tags=()):
        g = G.Gen(rng, lang)
        t = build(g)
        g.tags.update(tags)
        return G.make_job(lang, notation, t, g.rels, g.tags, strat, modelable)

    # French `quelques` (PhraseFr.link_DAV_properties)
    for with_det in (False, True):
        def b(g, with_det=with_det):
            n = g.T("N", g.noun()[0])
            kids = ([g.T("D", "le")] if with_det else []) + [g.T("A", "quelques"), n]
            for k in kids[:-1]:
                if k["k"] == "D":
                    g.rel(k, n, "det")
            g.rel(n, kids[-2], "plural", feats=["n"])        # `quelques` makes the noun plural
            return g.P("NP", kids)
        jobs.append(tree_job("fr", "phrase", b, tags=["quelques"]))

    # conflicting explicit numbers on the phrase and on its head noun
    for lang in ("fr", "en"):
        for a, c in (("s", "p"), ("p", "s")):
            def b(g, a=a, c=c, lang=lang):
                n = g.T("N", g.noun(lambda k: k[1] == "reg")[0], [["n", a]])
                d = g.T("D", "le" if lang == "fr" else "this")
                g.rel(d, n, "det")
                return g.P("NP", [d, n], [["n", c]])
            jobs.append(tree_job(lang, "phrase", b, tags=["conflict"]))

            def bd(g, a=a, c=c, lang=lang):
                n = g.T("N", g.noun(lambda k: k[1] == "reg")[0], [["n", a]])
                d = g.T("D", "le" if lang == "fr" else "this")
                g.rel(d, n, "det")
                v = g.T("V", g.verb())
                return g.Dp("root", v, [g.Dp("subj", n, [g.Dp("det", d)], [["n", c]])])
            jobs.append(tree_job(lang, "dep", bd, tags=["conflict"]))

    # mutation panel A: participles after a French copula, with adverbs in between
    for advs in ((), ("déjà",), ("déjà", "souvent")):
        for second in (False, True):
            def b(g, advs=advs, second=second):
                npn, hd = g.np(1, rel_ok=False)
                v = g.T("V", g.rng.choice(G.COPULAS_FR))
                g.rel(v, hd, "verb", tags=["copula"])
                kids = [v] + [g.T("Adv", a) for a in advs]
                pp = g.T("V", g.verb(aux=["êt", "aê"]), [["t", "pp"]])
                kids.append(pp)
                g.rel(pp, hd, "participle", tags=["copula"] + (["adv-before"] if advs else []))
                if second:
                    kids.append(g.T("Adv", "vite"))
                    pp2 = g.T("V", g.verb(), [["t", "pp"]])
                    kids.append(pp2)
                    g.rel(pp2, hd, "participle", tags=["copula", "adv-before", "second-pp"])
                return g.P("S", [npn, g.P("VP", kids)])
            jobs.append(tree_job("fr", "phrase", b))

    # non-subject relative pronouns whose clause has a COORDINATED subject (NP > SP position)
    for lang in ("fr", "en"):
        for _ in range(60 if tier == "quick" else 600):
            def b(g):
                npn, hd = g.np(1, rel_ok=False)
                for _ in range(20):
                    n0, r0, t0 = g.n, list(g.rels), set(g.tags)
                    sp = g.object_relative(hd)
                    if "coord-subject-in-relative" in g.tags:
                        break
                    g.n, g.rels, g.tags = n0, r0, t0
                npn["kids"].append(sp)
                return npn
            jobs.append(tree_job(lang, "phrase", b, tags=["relative"]))

    # mutation panel B: a coordinated subject that grows after it has been installed; also shared by two clauses
    for lang in ("fr", "en"):
        for shared in (False, True):
            for alias_write in (False, True):
                g = G.Gen(rng, lang)
                m1, _ = g.np(1, free=False, rel_ok=False)
                m2, _ = G.Gen(rng, lang).np(1, free=False, rel_ok=False)   # its own relations are not checked here
                cp = g.P("CP", [g.T("C", "et" if lang == "fr" else "and"), m1])
                v = g.T("V", "être" if lang == "fr" else "be")
                a = g.T("A", g.adj())
                g.rel(v, cp, "verb", tags=["coord-subject", "grown-after"] + (["shared"] if shared else []))
                if lang == "fr":
                    g.rel(a, cp, "attribute", tags=["coord-subject", "grown-after"] + (["shared"] if shared else []))
                s1 = g.P("S", [cp, g.P("VP", [v, a])])
                ops, root, hmap = G.Builder(lang, s1).build()
                n = max(hmap.values()) + 1
                extra = []
                if shared:
                    extra += [["mkT", {"k": "V", "lang": lang, "lem": g.verb()}], ["mkP", "VP", lang, [n]],
                              ["mkP", "S", lang, [hmap[cp["id"]], n + 1]]]
                    n += 3
                if alias_write:
                    extra += [["opt", root, "g", "f"]]
                b2 = G.Builder(lang, m2)
                b2.n = n
                ops2, r2, h2 = b2.build()
                extra += ops2 + [["add", hmap[cp["id"]], r2, None]]
                job = G.make_job(lang, "phrase", s1, g.rels, set(g.tags) | {"grown-after"}, None, True, extra_ops=extra, root=root)
                jobs.append(job)

    # coordinated subjects realized AFTER the words that agree with them (first realization of the object)
    for lang in ("fr", "en"):
        for _ in range(50 if tier == "quick" else 500):
            jobs.append(tree_job(lang, "phrase", lambda g: g.postverbal()))

    # pronominalization, French passive, pronoun case options: outside the store model's options -> oracle only
    for lang in ("fr", "en"):
        for _ in range(40 if tier == "quick" else 400):
            g = G.Gen(rng, lang)
            subj, ctrl = g.subject(1)
            obj, ohd = g.np(1, rel_ok=False)
            if ohd.get("nfree") and g.rng.random() < 0.6:
                ohd["opts"].append(["n", "p"])
            vlem = g.verb(aux=["av", "-"])
            t = g.rng.choice(["p", "pc", "pq"] if lang == "fr" else ["p", "ps"])
            v = g.T("V", vlem, [["t", t]])
            which = g.rng.choice(["obj", "subj"])
            if which == "obj":
                obj["opts"].append(["pro", True])
                g.rel(obj, obj, "pro", tags=["object"])
                if lang == "fr" and t in ("pc", "pq"):
                    g.rel(v, ctrl, "pp_cod", cod=obj["id"], tags=["pronominalized-cod", "compound"])
                else:
                    g.rel(v, ctrl, "verb")
            else:
                if subj["k"] == "NP":
                    subj["opts"].append(["pro", True])
                    g.rel(subj, subj, "pro", tags=["subject"])
                g.rel(v, ctrl, "verb")
            s = g.P("S", [subj, g.P("VP", [v, obj])])
            job = G.make_job(lang, "phrase", s, g.rels, set(g.tags) | {"pro"}, None, False)
            job["switch"] = True       # also: the other language current at realization, same text expected
            jobs.append(job)
    for _ in range(30 if tier == "quick" else 300):
        g = G.Gen(rng, "fr")
        subj, ctrl = g.np(1, rel_ok=False)
        obj, ohd = g.np(1, rel_ok=False)
        v = g.T("V", g.verb(aux=["av"]), g.tense_opts(simple=True))
        g.rel(v, ohd, "passive", tags=["passive"])
        s = g.P("S", [subj, g.P("VP", [v, obj])])
        job = G.make_job("fr", "phrase", s, g.rels, set(g.tags) | {"passive"}, None, False)
        job["ops"].append(["typ", job["root"], [["pas", True]]])
        jobs.append(job)
    return jobs


def gen_jobs(ctx, deep=False):
    rng = ctx.rng
    thorough = ctx.tier == "thorough" or deep
    n_trees = 30000 if ctx.tier == "thorough" else 9000 if deep else 3000
    jobs = _fixed_jobs(rng, "thorough" if thorough else "quick")
    for _ in range(n_trees):
        lang, notation, tree, g = G.gen_tree(rng)
        n_late = sum(len(x["late"]) for x in G.nodes_of(tree))
        sts = G.strategies(rng, tree, n_late, exhaustive_late=4, budget=(5 if thorough else 2))
        if not thorough and len(sts) > 4:
            sts = sts[:2] + rng.sample(sts[2:], 2)
        for st in sts:
            jobs.append(G.make_job(lang, notation, tree, g.rels, g.tags, st, g.modelable))
    return jobs


# ------------------------------------------------------------------------------------------------- workers

def _work(chunk):
    core.ensure_repo_on_path()
    out = []
    for i, job in chunk:
        try:
            r = G.run_job(job, want_snaps=True)
        except Exception as e:  # noqa
            import traceback
            out.append((i, {"harness_error": traceback.format_exc()[-800:]}))
            continue
        snaps = r.pop("snaps") or []
        r["pcs"] = [[n["pc"] for n in s["nodes"]] for s in snaps]
        r["final"] = snaps[-1] if snaps else None
        out.append((i, r))
    return out


def run_parallel(jobs):
    idx = list(enumerate(jobs))
    size = max(1, min(60, len(idx) // (WORKERS * 4) + 1))
    chunks = [idx[i:i + size] for i in range(0, len(idx), size)]
    res = [None] * len(jobs)
    if WORKERS > 1 and len(chunks) > 1:
        ctxm = multiprocessing.get_context("fork")
        with ctxm.Pool(WORKERS) as pool:
            for part in pool.imap_unordered(_work, chunks):
                for i, r in part:
                    res[i] = r
    else:
        for c in chunks:
            for i, r in _work(c):
                res[i] = r
    return res


# ------------------------------------------------------------------------------------------------- signatures

def signature(job, fail):
    r = fail["rel"]
    lang, notation = job["lang"], job["notation"]
    depk, ctrlk = r["depk"][0], r["ctrlk"][0]
    if fail["why"] != "form":
        return "%s|%s|%s|%s|%s<-%s" % (fail["why"], lang, notation, r["kind"], depk, ctrlk)
    if fail.get("desync"):
        return "desync|%s|%s|%s.%s:own≠record|dep=%s" % (lang, notation, ctrlk, "+".join(fail["desync"]), r["kind"])
    tags = list(r["tags"])
    if "coord-vp" in tags and ctrlk == "CP" and fail.get("ctrl_n_before") is None:
        # the subject coordination had no number when the coordinated VPs were realized (S.real sets the default after)
        return "late-number|%s|%s|%s|coord-vp|CP-subject-without-number" % (lang, notation, r["kind"])
    return "form|%s|%s|%s|%s|%s<-%s" % (lang, notation, r["kind"], "+".join(tags), depk, ctrlk)


def crash_signature(job, crash):
    return "crash|%s|%s|%s|%s" % (crash[0], crash[1], crash[2], crash[3])


def abstract_job(job):
    """the job with lexical items replaced by their class (for the replay file the concrete job is kept too)"""
    ops = []
    for op in job["ops"]:
        if op[0] == "mkT":
            ops.append(["mkT", G.lex_class(job["lang"], op[1]["k"], op[1]["lem"])])
        else:
            ops.append(op)
    return ops


# ------------------------------------------------------------------------------------------------- comparison

NODE_KEYS = ("k", "kids", "term", "par", "props", "pc", "cod", "subj")


def view_state(snap, gp):
    """what C03 compares of a snapshot: tree, own props, partition by record, record contents, cod/subject, getProp"""
    nodes = []
    for n in snap["nodes"]:
        d = {k: n.get(k) for k in NODE_KEYS}
        d["props"] = sorted([k, v] for k, v in (n.get("props") or []) if k in ("pe", "n", "g", "t", "aux", "pos", "poss", "own"))
        nodes.append(d)
    return {"nodes": nodes, "recs": snap.get("recs"), "gp": gp}


def check_job(ctx, job, res, model, stats):
    """compares the model's answer with the implementation's; runs the oracle verdicts"""
    if "harness_error" in res:
        raise RuntimeError("worker: " + res["harness_error"])
    line = {"op": "agree", "lang": job["lang"], "notation": job["notation"], "ops": abstract_job(job), "tags": job["tags"]}
    answer = {"end": res["end"], "text": res["text"], "checked": res["checked"]}
    ctx.count(line, answer, trivial=(res["checked"] == 0))
    # ---- the oracle on the implementation
    for f in res["fails"]:
        sig = signature(job, f)
        ctx.fail(sig, {"job": job, "abstract": line["ops"]},
                 "%s: got %r, alone with the controller's features %r gives %r; text=%r" % (
                     sig, f["got"], f.get("feats"), f["exp"], res["text"]))
        stats["oracle_fail"] += 1
    if res["crash"] is not None and (res["end"] != "ok" or (res["text"] or "").startswith("!")):
        sig = crash_signature(job, res["crash"])
        ctx.fail(sig, {"job": job, "abstract": line["ops"]}, "exception while building / realizing an agreement structure: %r" % (res["crash"],))
        stats["crash"] += 1
    # ---- model vs implementation
    if model is None:
        stats["oracle_only"] += 1
        return
    ctx.cov["traces_validated_against_impl"] += 1
    if model["end"] == "outside":
        stats["outside"] += 1
        return
    if model["end"] != res["end"]:
        ctx.diff({"job": job}, {"end": model["end"]}, {"end": res["end"], "crash": res["crash"]})
        return
    # the declarative specification, directly on the live objects
    for i, pairs in enumerate(model["must"]):
        if i >= len(res["pcs"]):
            break
        pcs = res["pcs"][i]
        for d, c in pairs:
            stats["must_pairs"] += 1
            if d < len(pcs) and c < len(pcs) and (pcs[d] is None or pcs[d] != pcs[c]):
                sig = "link|%s|%s|after-op=%s|%s<-%s" % (job["lang"], job["notation"], job["ops"][i][0],
                                                        _kind_of(job, d), _kind_of(job, c))
                ctx.fail(sig, {"job": job, "abstract": line["ops"]},
                         "after op %d the specification requires node %d to share the record of node %d; the live objects do not" % (i, d, c))
                stats["must_fail"] += 1
    if res["end"] != "ok" or res["final"] is None:
        return
    m = view_state(model["final"]["snap"], model["final"]["gp"])
    a = view_state(res["final"], res["gp"])
    if core.canon(m) != core.canon(a):
        ctx.diff({"job": job}, _first_diff(m, a)[0], _first_diff(m, a)[1])
        stats["state_diff"] += 1


def _kind_of(job, h):
    n = 0
    for op in job["ops"]:
        if op[0] == "mkT":
            if n == h:
                return op[1]["k"]
            n += 1
        elif op[0] in ("mkP", "mkD"):
            if n == h:
                return op[1]
            n += 1
    return "?"


def _first_diff(m, a):
    for i, (x, y) in enumerate(zip(m["nodes"], a["nodes"])):
        if x != y:
            return {"node": i, **x}, {"node": i, **y}
    if m["recs"] != a["recs"]:
        return {"recs": m["recs"]}, {"recs": a["recs"]}
    for i, (x, y) in enumerate(zip(m["gp"], a["gp"])):
        if x != y:
            return {"gp": i, "v": x}, {"gp": i, "v": y}
    return {"len": len(m["nodes"])}, {"len": len(a["nodes"])}


def run(ctx, deep=False):
    t0 = time.time()
    jobs = gen_jobs(ctx, deep)
    res = run_parallel(jobs)
    t1 = time.time()
    lines, where = [], []
    for i, (job, r) in enumerate(zip(jobs, res)):
        if r is not None and "harness_error" not in r and job["modelable"]:
            lines.append({"op": "agree", "ops": r["specs"]})
            where.append(i)
    model = {}
    B = 4000
    for k in range(0, len(lines), B):
        for i, m in zip(where[k:k + B], core.run_driver(lines[k:k + B], ctx.driver)):
            if "driver_error" in m:
                raise core.Infra("driver error: %s on %s" % (m["driver_error"], core.canon(lines[where.index(i)])[:300]))
            model[i] = m
    t2 = time.time()
    stats = {k: 0 for k in ("oracle_fail", "crash", "oracle_only", "outside", "must_pairs", "must_fail", "state_diff")}
    dist = {}
    nrel = 0
    for i, (job, r) in enumerate(zip(jobs, res)):
        check_job(ctx, job, r, model.get(i), stats)
        key = "%s/%s" % (job["lang"], job["notation"])
        dist[key] = dist.get(key, 0) + 1
        nrel += r.get("checked", 0)
    ctx.notes["jobs"] = len(jobs)
    ctx.notes["dependent_forms_compared"] = nrel
    ctx.notes["distribution(lang/notation)"] = dist
    ctx.notes["stats"] = stats
    ctx.notes["times_s"] = {"impl+oracle": round(t1 - t0, 1), "model": round(t2 - t1, 1), "compare": round(time.time() - t2, 1)}
    ctx.notes["cpu_s"] = round(sum(os.times()[:4]), 1)


def search(ctx):
    """deeper search on the implementation when a proof or the correspondence broke"""
    run(ctx, deep=True)


def replay(path):
    d = json.load(open(path, encoding="utf-8"))
    inp = d.get("input", {})
    job = inp.get("job") or inp.get("input", {}).get("job")
    if job is None:
        print(json.dumps(d, ensure_ascii=False)[:2000])
        return 0
    core.ensure_repo_on_path()
    r = G.run_job(job, want_snaps=False)
    print(json.dumps({"text": r["text"], "end": r["end"], "crash": r["crash"],
                      "fails": [{"sig": signature(job, f), "got": f["got"], "exp": f["exp"]} for f in r["fails"]]},
                     ensure_ascii=False, indent=1))
    return 1 if (r["fails"] or r["crash"]) else 0
