"""Generators for C11: expression trees of both notations/languages inside (and a little outside) the modelled
fragment, and the HISTORIES that assemble one tree in different ways (insertion orders, argument nestings,
bottom-up / top-down attachment).  Pure functions of a `random.Random`."""
import itertools

LEX = {
    "en": {"N": ["cat", "dog", "mouse", "water", "child"], "A": ["big", "small", "red", "good"],
           "D": ["the", "a", "my", "no", "this"], "V": ["sleep", "eat", "be", "love", "see"],
           "Pro": ["I", "me", "it", "you"], "Rel": ["that", "who", "which"], "Adv": ["very", "quickly", "now"],
           "P": ["in", "on", "with"], "C": ["and", "or"], "NO": ["1", "2", "3.5"]},
    "fr": {"N": ["chat", "souris", "femme", "eau", "enfant"], "A": ["grand", "petit", "rouge", "beau", "quelques"],
           "D": ["le", "un", "mon", "ce"], "V": ["dormir", "manger", "être", "aimer", "avoir"],
           "Pro": ["je", "moi", "elle", "nous"], "Rel": ["qui", "que", "lequel"], "Adv": ["très", "vite", "maintenant"],
           "P": ["dans", "sur", "avec", "de"], "C": ["et", "ou"], "NO": ["1", "2", "3.5"]},
}
# lemmas the link code looks at: they stay visible in a signature
SPECIAL = {"no", "a", "that", "who", "which", "quelques", "qui", "que", "lequel", "duquel", "auquel", "dont", "où",
           "être", "paraître", "sembler", "devenir", "rester", "avoir", "de"}
TERMINALS = ["N", "A", "Pro", "D", "Adv", "V", "P", "C", "DT", "NO", "Q"]
PHRASES = ["NP", "AP", "AdvP", "VP", "PP", "CP", "S", "SP"]
DEPS = ["root", "subj", "det", "mod", "comp", "coord"]


def T(k, lem, *opts):
    return {"k": k, "lem": lem, "opts": [list(o) for o in opts]}


def P(k, *kids, opts=(), typ=None):
    return {"k": k, "kids": list(kids), "opts": [list(o) for o in opts], "typ": typ}


def Dp(k, term, *kids, opts=(), typ=None):
    return {"k": k, "term": term, "kids": list(kids), "opts": [list(o) for o in opts], "typ": typ}


def is_term(n):
    return n["k"] in TERMINALS


def word(rng, lang, cls):
    return rng.choice(LEX[lang][cls])


def term_opts(rng, k, lang):
    o = []
    if k in ("N", "Pro", "D", "A") and rng.random() < 0.35:
        o.append(["n", rng.choice(["p", "s"])])
    if k in ("N", "A", "D") and lang == "fr" and rng.random() < 0.25:
        o.append(["g", rng.choice(["f", "m"])])
    if k == "Pro" and rng.random() < 0.3:
        o.append(["pe", rng.choice([1, 2, 3])])
    if k == "V" and rng.random() < 0.3:
        o.append(["t", rng.choice(["p", "ps", "f", "pp", "pr", "ip"] if lang == "en" else ["p", "i", "f", "pp", "pc", "ip"])])
    if k == "A" and rng.random() < 0.25:
        o.append(["pos", rng.choice(["pre", "post"])])
    if k == "N" and lang == "en" and rng.random() < 0.08:
        o.append(["poss", True])
    if k == "D" and lang == "en" and rng.random() < 0.08:
        o.append(["ow", rng.choice(["s", "p"])])
    return o


def gterm(rng, lang, k, cls=None):
    return {"k": k, "lem": word(rng, lang, cls or k), "opts": term_opts(rng, k, lang)}


def phrase_opts(rng, k):
    o = []
    if k in ("NP", "S", "SP", "VP", "CP", "AP") and rng.random() < 0.3:
        o.append(["n", rng.choice(["p", "s"])])
    if k in ("S", "SP", "VP") and rng.random() < 0.25:
        o.append(["t", rng.choice(["p", "ps", "f"])])
    if k in ("NP", "S") and rng.random() < 0.1:
        o.append(["pe", rng.choice([1, 2])])
    return o


def gNP(rng, lang, depth=0, maxkids=4):
    kids = []
    r = rng.random
    if r() < 0.75:
        kids.append(gterm(rng, lang, "D"))
    if r() < 0.25:
        kids.append(gterm(rng, lang, "NO"))
    for _ in range(rng.choice([0, 0, 1, 1, 2])):
        kids.append(gterm(rng, lang, "A") if r() < 0.85 else P("AP", gterm(rng, lang, "Adv"), gterm(rng, lang, "A")))
    if r() < 0.9:
        kids.append(gterm(rng, lang, "N"))
    if r() < 0.2:
        kids.append(gterm(rng, lang, "A"))
    if r() < 0.12:
        kids.append(gterm(rng, lang, "N"))
    if depth < 2 and r() < 0.25:
        kids.append(gPP(rng, lang, depth + 1))
    if depth < 1 and r() < 0.25:
        kids.append(gSPrel(rng, lang, depth + 1))
    if depth < 1 and r() < 0.05:
        kids.append(gSPrel(rng, lang, depth + 1))
    if r() < 0.08:
        kids.append(P("CP", gterm(rng, lang, "C"), gterm(rng, lang, "A"), gterm(rng, lang, "A")))
    if r() < 0.15:
        rng.shuffle(kids)
    kids = kids[:max(1, maxkids + (1 if r() < 0.2 else 0))]
    return P("NP", *kids, opts=phrase_opts(rng, "NP"))


def gPP(rng, lang, depth=0):
    return P("PP", gterm(rng, lang, "P"), gNP(rng, lang, depth + 1, maxkids=3))


def gVP(rng, lang, depth=0):
    kids = []
    r = rng.random
    if r() < 0.15:
        kids.append(gterm(rng, lang, "Adv"))
    kids.append(gterm(rng, lang, "V"))
    if r() < 0.12:
        kids.append({"k": "V", "lem": word(rng, lang, "V"), "opts": [["t", "pp"]]})
    if r() < 0.5:
        kids.append(gNP(rng, lang, depth + 1, maxkids=3))
    if r() < 0.25:
        kids.append(gterm(rng, lang, "A") if r() < 0.6 else P("AP", gterm(rng, lang, "A")))
    if r() < 0.25:
        kids.append(gPP(rng, lang, depth + 1))
    if r() < 0.15:
        kids.append(gterm(rng, lang, "Adv"))
    if r() < 0.05:
        kids = [k for k in kids if k["k"] != "V"] or kids
    return P("VP", *kids, opts=phrase_opts(rng, "VP"))


def gSubject(rng, lang, depth):
    x = rng.random()
    if x < 0.55:
        return gNP(rng, lang, depth + 1, maxkids=3)
    if x < 0.75:
        return gterm(rng, lang, "Pro")
    if x < 0.85:
        return gterm(rng, lang, "N")
    return P("CP", gterm(rng, lang, "C"), gNP(rng, lang, depth + 1, maxkids=2), gNP(rng, lang, depth + 1, maxkids=2))


TYP_POOL = {"neg": [True, False], "pas": [True, False], "prog": [True, False], "perf": [True, False], "exc": [True, False],
            "mod": ["poss", "perm", "nece", False, "xx"], "int": ["yon", "wos", "tag", False, 3], "foo": [True]}


def gtyp(rng):
    """0-2 typ() calls (lists of pairs), mostly legal"""
    calls = []
    for _ in range(rng.choice([1, 1, 2])):
        ks = rng.sample(list(TYP_POOL), rng.randint(1, 3))
        calls.append([[k, rng.choice(TYP_POOL[k])] for k in ks])
    return calls


def gS(rng, lang, depth=0, k="S"):
    r = rng.random
    kids = []
    if r() < 0.92:
        kids.append(gSubject(rng, lang, depth))
    x = r()
    if x < 0.8:
        kids.append(gVP(rng, lang, depth))
    elif x < 0.9:
        kids.append(gterm(rng, lang, "V"))
        if r() < 0.5:
            kids.append(gNP(rng, lang, depth + 1, maxkids=2))
    else:
        kids.append(P("CP", gterm(rng, lang, "C"), gVP(rng, lang, depth + 1), gVP(rng, lang, depth + 1)))
    if r() < 0.15:
        kids.append(gPP(rng, lang, depth + 1))
    if r() < 0.08:
        kids.insert(0, gterm(rng, lang, "Adv"))
    return P(k, *kids, opts=phrase_opts(rng, k), typ=(gtyp(rng) if depth == 0 and r() < 0.3 else None))


def gSPrel(rng, lang, depth=0):
    r = rng.random
    rel = gterm(rng, lang, "Pro", "Rel")
    if r() < 0.6:
        return P("SP", rel, gVP(rng, lang, depth + 1))
    return P("SP", rel, gNP(rng, lang, depth + 1, maxkids=2), gVP(rng, lang, depth + 1))


def gDepNP(rng, lang, rel, depth=0):
    """subj/comp/mod with a nominal head"""
    r = rng.random
    kids = []
    if r() < 0.75:
        kids.append(Dp("det", gterm(rng, lang, "D")))
    if r() < 0.15:
        kids.append(Dp("det", gterm(rng, lang, "NO")))
    for _ in range(rng.choice([0, 0, 1, 2])):
        kids.append(Dp("mod", gterm(rng, lang, "A")))
    if depth < 1 and r() < 0.2:
        kids.append(Dp("mod", gterm(rng, lang, "P"), gDepNP(rng, lang, "comp", depth + 1)))
    if depth < 1 and r() < 0.15:
        kids.append(Dp("mod", gterm(rng, lang, "V"), Dp("subj", gterm(rng, lang, "Pro", "Rel"))))
    if r() < 0.15:
        rng.shuffle(kids)
    head = gterm(rng, lang, "N") if r() < 0.85 else gterm(rng, lang, "Pro")
    return Dp(rel, head, *kids[:4], opts=([["n", "p"]] if r() < 0.2 else []))


def gRoot(rng, lang, depth=0):
    r = rng.random
    kids = []
    x = r()
    if x < 0.6:
        kids.append(gDepNP(rng, lang, "subj"))
    elif x < 0.85:
        kids.append(Dp("coord", gterm(rng, lang, "C"), gDepNP(rng, lang, "subj", 1), gDepNP(rng, lang, "subj", 1)))
    if r() < 0.5:
        kids.append(gDepNP(rng, lang, "comp"))
    if r() < 0.3:
        kids.append(Dp("comp" if r() < 0.5 else "mod", gterm(rng, lang, "A")))
    if r() < 0.2:
        kids.append(Dp("mod", gterm(rng, lang, "Adv")))
    if r() < 0.1:
        kids.append(Dp("coord", gterm(rng, lang, "C"), Dp("mod", gterm(rng, lang, "A")), Dp("mod", gterm(rng, lang, "A"))))
    if r() < 0.15:
        rng.shuffle(kids)
    return Dp("root", gterm(rng, lang, "V"), *kids[:4], opts=([["t", rng.choice(["p", "ps", "f"])]] if r() < 0.3 else []),
              typ=(gtyp(rng) if r() < 0.3 else None))


def gtree(rng, lang=None, notation=None):
    lang = lang or rng.choice(["en", "fr"])
    notation = notation or rng.choice(["phrase", "phrase", "dep"])
    if notation == "dep":
        t = gRoot(rng, lang)
    else:
        x = rng.random()
        t = gS(rng, lang) if x < 0.7 else gNP(rng, lang) if x < 0.85 else gVP(rng, lang) if x < 0.95 else gSPrel(rng, lang)
    return lang, t


# ------------------------------------------------------------------------------------------ histories

def node_paths(tree, path=()):
    """all non-terminal nodes with their path"""
    if is_term(tree):
        return
    yield path, tree
    for i, k in enumerate(tree["kids"]):
        yield from node_paths(k, path + (i,))


def all_orders(n):
    """every (initial subset, insertion order of the rest) for n children: sum_k C(n,k) (n-k)!"""
    res = []
    for k in range(n, -1, -1):
        for init in itertools.combinations(range(n), k):
            rest = [i for i in range(n) if i not in init]
            for perm in itertools.permutations(rest):
                res.append((list(init), list(perm)))
    return res


def nest(rng, items):
    """a random nesting of the argument list `items` with None's, sub-lists and tuples"""
    if not items:
        return [] if rng.random() < 0.7 else [rng.choice([None, [], [None], {"t": []}])]
    out = []
    i = 0
    while i < len(items):
        x = rng.random()
        if x < 0.55:
            out.append(items[i])
            i += 1
        elif x < 0.7:
            out.append(None)
        else:
            j = rng.randint(i, min(len(items), i + 3))
            sub = nest(rng, items[i:j]) if j > i else []
            out.append(sub if rng.random() < 0.7 else {"t": sub})
            i = j
    if rng.random() < 0.2:
        out.append(None)
    return out


class Builder:
    """emits the ops that assemble `tree`.
    strat[path] = {"init": [child indices given to the constructor], "order": [the others, in insertion order],
                   "topdown": bool (the adds happen after the node has been attached and the root built),
                   "nest": bool, "aslist": bool (the late children are added with ONE add(list,pos) when contiguous),
                   "posnone": bool (use position None for an insertion at the end)}"""

    def __init__(self, lang, tree, strat=None, rng=None):
        self.lang, self.tree, self.strat, self.rng = lang, tree, strat or {}, rng
        self.ops = []
        self.n = 0
        self.deferred = []
        self.late_opts = []

    def new(self):
        self.n += 1
        return self.n - 1

    def emit(self, node, path=()):
        if is_term(node):
            h = self.new()
            self.ops.append(["mkT", {"k": node["k"], "lang": self.lang, "lem": node["lem"]}])
            for o in node.get("opts", []):
                self.ops.append(["opt", h, o[0], o[1]])
            return h
        st = self.strat.get(path, {})
        kids = node["kids"]
        init = st.get("init", list(range(len(kids))))
        order = st.get("order", [])
        hk = {}
        first = []
        if "term" in node:
            first.append(self.emit(node["term"], path + ("t",)))
        for i in init:
            hk[i] = self.emit(kids[i], path + (i,))
        args = [hk[i] for i in init]
        if st.get("nest") and self.rng is not None:
            args = nest(self.rng, args)
        h = self.new()
        self.ops.append(["mkD" if "term" in node else "mkP", node["k"], self.lang, first + args])

        def complete():
            present = sorted(init)
            if st.get("aslist") and order and "term" not in node and \
                    not any(min(order) < j < max(order) for j in present):
                # one add(list, pos): the late children form the list, in target order
                grp = sorted(order)
                hs = [self.emit(kids[i], path + (i,)) for i in grp]
                pos = len([j for j in present if j < grp[0]])
                self.ops.append(["add", h, hs, None if (pos == len(present) and st.get("posnone", True)) else pos])
                present.extend(grp)
            else:
                for i in order:
                    c = self.emit(kids[i], path + (i,))
                    pos = len([j for j in present if j < i])
                    at_end = pos == len(present)
                    self.ops.append(["add", h, c, None if (at_end and st.get("posnone", True)) else pos])
                    present.append(i)
                    present.sort()
            self.late_opts.append((h, node))
        if st.get("topdown"):
            self.deferred.append(complete)
        else:
            complete()
        return h

    def build(self):
        root = self.emit(self.tree)
        while self.deferred:
            d = self.deferred.pop(0)
            d()
        # options and typ() of the non-terminals come last, children before parents, in EVERY history of the tree:
        # the histories differ in how the tree is assembled, not in the order of the option calls
        for h, node in sorted(self.late_opts, key=lambda x: x[0]):
            for o in node.get("opts", []):
                self.ops.append(["opt", h, o[0], o[1]])
            if node.get("typ") is not None:
                for call in node["typ"]:
                    self.ops.append(["typ", h, call])
        return self.ops, root


def oneshot(lang, tree):
    return Builder(lang, tree).build()


def histories_of(rng, lang, tree, exhaustive_max=4, budget=40):
    """variants of assembling `tree`: for each node with ≤ exhaustive_max children every (init, order); then random
    combinations over several nodes, top-down attachments, nestings, list adds"""
    res = []
    nodes = list(node_paths(tree))
    for path, nd in nodes:
        n = len(nd["kids"])
        if n == 0:
            continue
        combos = all_orders(n) if n <= exhaustive_max else \
            [(sorted(rng.sample(range(n), rng.randint(0, n))), None) for _ in range(12)]
        for init, order in combos:
            if order is None:
                order = [i for i in range(n) if i not in init]
                rng.shuffle(order)
            if not order:
                continue
            for td in ((False, True) if path != () else (False,)):
                res.append({path: {"init": init, "order": order, "topdown": td, "posnone": rng.random() < 0.5}})
    if len(res) > budget:
        keep = rng.sample(res, budget)
        res = keep
    # combinations
    for _ in range(max(4, budget // 4)):
        st = {}
        for path, nd in nodes:
            n = len(nd["kids"])
            if rng.random() < 0.5:
                init = sorted(rng.sample(range(n), rng.randint(0, n)))
                order = [i for i in range(n) if i not in init]
                rng.shuffle(order)
                st[path] = {"init": init, "order": order, "topdown": path != () and rng.random() < 0.4,
                            "nest": rng.random() < 0.4, "aslist": rng.random() < 0.15, "posnone": rng.random() < 0.5}
            elif rng.random() < 0.4:
                st[path] = {"nest": True}
        res.append(st)
    return res


# ------------------------------------------------------------------------------------------ oracle on histories

import copy
import json
import os
import random
import time

from harness import core


def _world():
    from harness.impl import snapshot
    return snapshot.World()


def shape(w, h):
    """the final tree below handle h as read from the live objects: kinds, lemmas, child order"""
    o = w.objs[h]
    kids = getattr(o, "elements", None)
    if kids is None:
        kids = getattr(o, "dependents", None)
    if kids is None:
        return [o.constType, str(getattr(o, "lemma", ""))]
    t = getattr(o, "terminal", None)
    return [o.constType, shape(w, w._h(t)) if t is not None and w._h(t) >= 0 else None,
            [shape(w, w._h(k)) if w._h(k) >= 0 else "?" for k in kids]]


def rebuild_oneshot(w, ops, root):
    """ops that construct, bottom-up and with one constructor call per node, the tree that the history `ops` ended
    with (child order read from the live objects), applying to each node the options/typ calls it received"""
    create, extra = {}, {}
    h = 0
    for op in ops:
        if op[0] in ("mkT", "mkP", "mkD"):
            create[h] = op
            h += 1
        elif op[0] in ("opt", "typ"):
            extra.setdefault(op[1], []).append(op)
    out = []
    cnt = [0]

    def rec(x):
        o = w.objs[x]
        c = create[x]
        if c[0] == "mkT":
            hh = cnt[0]
            cnt[0] += 1
            out.append(c)
        else:
            kids = getattr(o, "elements", None)
            if kids is None:
                kids = o.dependents
            first = []
            if c[0] == "mkD":
                th = w._h(o.terminal)
                if th < 0:
                    raise LookupError
                first = [rec(th)]
            hs = []
            for k in kids:
                kh = w._h(k)
                if kh < 0:
                    raise LookupError
                hs.append(rec(kh))
            hh = cnt[0]
            cnt[0] += 1
            out.append([c[0], c[1], c[2], first + hs])
        newh[x] = hh
        if c[0] == "mkT":
            for e in extra.get(x, []):
                out.append([e[0], hh] + e[2:])
        return hh
    newh = {}
    r = rec(root)
    for op in ops:
        if op[0] in ("opt", "typ") and op[1] in newh and create[op[1]][0] != "mkT":
            out.append([op[0], newh[op[1]]] + op[2:])
    return out, r


def check_history(lang, tree, strat):
    """the metamorphic oracle on the implementation.  Returns (kind, detail) of a violation or None.
    kinds: text (same final tree, different text), raises (the history raises, one-shot construction does not),
    oneshot-raises, addlist-order (add(list,pos) does not insert the list in order)"""
    ops, root = Builder(lang, tree, strat, random.Random(strat.get("nestseed", 0) if isinstance(strat, dict) else 0)).build()
    w = _world()
    _, end = w.run(ops, snaps=False)
    tops, troot = oneshot(lang, tree)
    if end != "ok":
        w2 = _world()
        _, end2 = w2.run(tops, snaps=False)
        if end2 == "ok":
            return ("raises", "|".join(w.last_exc or (end,)))
        return None
    uses_list = any(isinstance(v, dict) and v.get("aslist") for v in strat.values())
    if uses_list and not has_adj_and_noun(tree):
        w2 = _world()
        _, end2 = w2.run(tops, snaps=False)
        if end2 == "ok" and shape(w, root) != shape(w2, troot):
            return ("addlist-order", "children %s, one-shot %s" % (json.dumps(shape(w, root))[:300], json.dumps(shape(w2, troot))[:300]))
    try:
        bops, broot = rebuild_oneshot(w, ops, root)
    except LookupError:
        return None
    w3 = _world()
    _, end3 = w3.run(bops, snaps=False)
    if end3 != "ok":
        return ("oneshot-raises", "|".join(w3.last_exc or (end3,)))
    if shape(w, root) != shape(w3, broot):
        return ("incomparable", "")
    ta, tb = w.realize(root), w3.realize(broot)
    if ta != tb:
        return ("text", "history: %r   one-shot: %r" % (ta, tb))
    return None


# ------------------------------------------------------------------------------------------ shrinking

def _get(tree, path):
    for i in path:
        tree = tree["term"] if i == "t" else tree["kids"][i]
    return tree


def _strat_drop_child(strat, path, i):
    """strategy after child i of the node at `path` has been removed"""
    out = {}
    for p, st in strat.items():
        if p[:len(path)] == path and len(p) > len(path) and p[len(path)] != "t":
            j = p[len(path)]
            if j == i:
                continue
            if j > i:
                p = path + (j - 1,) + p[len(path) + 1:]
        st = dict(st)
        if p == path:
            for key in ("init", "order"):
                if key in st:
                    st[key] = [j - 1 if j > i else j for j in st[key] if j != i]
        out[p] = st
    return out


def _strat_hoist(strat, path, i):
    """strategy after the node at `path` has been replaced by its child i"""
    out = {}
    pre = path + (i,)
    for p, st in strat.items():
        if p == path:
            continue
        if p[:len(pre)] == pre:
            out[path + p[len(pre):]] = st
        elif p[:len(path)] == path and len(p) > len(path):
            continue
        else:
            out[p] = st
    return out


def reductions(lang, tree, strat):
    """candidate one-step reductions, big steps first"""
    nodes = list(node_paths(tree))
    # 1. remove a child subtree (largest first)
    cands = []
    for path, nd in nodes:
        for i, k in enumerate(nd["kids"]):
            cands.append((-len(json.dumps(k)), path, i))
    for _, path, i in sorted(cands):
        t2 = copy.deepcopy(tree)
        del _get(t2, path)["kids"][i]
        yield t2, _strat_drop_child(strat, path, i)
    # 2. hoist a child in place of its parent (not for the root of a dependency tree / terminals of dependents)
    for path, nd in nodes:
        if path == () or "term" in nd:
            continue
        for i, k in enumerate(nd["kids"]):
            if "term" in k:
                continue
            t2 = copy.deepcopy(tree)
            par = _get(t2, path[:-1])
            par["kids"][path[-1]] = copy.deepcopy(k)
            yield t2, _strat_hoist(strat, path, i)
    # 3. simplify the strategy
    for p in sorted(strat, key=lambda q: (len(q), str(q))):
        st = strat[p]
        s2 = {q: v for q, v in strat.items() if q != p}
        yield tree, s2
        for key in ("topdown", "nest", "aslist"):
            if st.get(key):
                s3 = dict(strat)
                s3[p] = {k: v for k, v in st.items() if k != key}
                yield tree, s3
        if st.get("order"):
            for j in st["order"]:
                s3 = dict(strat)
                s3[p] = dict(st, init=sorted(st.get("init", []) + [j]), order=[x for x in st["order"] if x != j])
                yield tree, s3
        if not st.get("posnone", True) or "posnone" not in st:
            s3 = dict(strat)
            s3[p] = dict(st, posnone=True)
            if s3[p] != st:
                yield tree, s3
    # 4. drop options / typ
    allnodes = []

    def walk(n, path):
        allnodes.append(path)
        if "term" in n:
            walk(n["term"], path + ("t",))
        for i, k in enumerate(n.get("kids", [])):
            walk(k, path + (i,))
    walk(tree, ())
    for path in allnodes:
        nd = _get(tree, path)
        for j in range(len(nd.get("opts", []))):
            t2 = copy.deepcopy(tree)
            del _get(t2, path)["opts"][j]
            yield t2, strat
        if nd.get("typ"):
            t2 = copy.deepcopy(tree)
            _get(t2, path)["typ"] = None
            yield t2, strat
    # 5. first word of the class
    for path in allnodes:
        nd = _get(tree, path)
        if is_term(nd) and nd["lem"] not in SPECIAL:
            cls = "Rel" if nd["lem"] in LEX[lang]["Rel"] else nd["k"]
            first = LEX[lang].get(cls, [nd["lem"]])[0]
            if first != nd["lem"]:
                t2 = copy.deepcopy(tree)
                _get(t2, path)["lem"] = first
                yield t2, strat


KIND_ORDER = {"T": ["N", "V", "A", "D", "Pro", "NO", "Adv", "P", "C"],
              "P": ["NP", "VP", "S", "SP", "PP", "AP", "AdvP", "CP"],
              "D": ["subj", "comp", "mod", "det", "coord"]}


def canon_reductions(lang, tree, strat):
    """reductions that do not make the input smaller but more canonical: an earlier kind of the same sort"""
    allnodes = []

    def walk(n, path):
        allnodes.append(path)
        if "term" in n:
            walk(n["term"], path + ("t",))
        for i, k in enumerate(n.get("kids", [])):
            walk(k, path + (i,))
    walk(tree, ())
    for path in allnodes:
        nd = _get(tree, path)
        for sort, order in KIND_ORDER.items():
            if nd["k"] in order:
                for k2 in order[:order.index(nd["k"])]:
                    t2 = copy.deepcopy(tree)
                    n2 = _get(t2, path)
                    n2["k"] = k2
                    if sort == "T":
                        n2["lem"] = LEX[lang][k2][0]
                        n2["opts"] = [o for o in n2.get("opts", []) if o[0] in ("n", "pe") or (o[0] == "t" and k2 == "V")]
                    yield t2, strat
    for path in allnodes:
        nd = _get(tree, path)
        for j, o in enumerate(nd.get("opts", [])):
            if o != ["n", "p"]:
                t2 = copy.deepcopy(tree)
                _get(t2, path)["opts"][j] = ["n", "p"]
                yield t2, strat


def to_en(tree):
    t2 = copy.deepcopy(tree)

    def walk(n):
        if is_term(n):
            cls = "Rel" if n["lem"] in LEX["fr"]["Rel"] else n["k"]
            n["lem"] = LEX["en"][cls][0]
            n["opts"] = [o for o in n.get("opts", []) if o[0] != "g"]
        if "term" in n:
            walk(n["term"])
        for k in n.get("kids", []):
            walk(k)
    walk(t2)
    return t2


def _ckey(lang, tree, strat):
    return json.dumps([lang, tree, sorted((list(map(str, p)), sorted(v.items())) for p, v in strat.items())],
                      sort_keys=True, ensure_ascii=False)


def shrink(lang, tree, strat, kind, memo):
    def fails(t, s):
        k = _ckey(lang, t, s)
        if k not in memo:
            try:
                r = check_history(lang, t, s)
            except Exception:  # noqa  (a reduction may produce an ill-formed strategy)
                r = None
            memo[k] = r[0] if r else None
        return memo[k] == kind
    def fails_in(lg, t, s):
        k = _ckey(lg, t, s)
        if k not in memo:
            try:
                r = check_history(lg, t, s)
            except Exception:  # noqa
                r = None
            memo[k] = r[0] if r else None
        return memo[k] == kind
    changed = True
    steps = 0
    while changed and steps < 300:
        changed = False
        for t2, s2 in itertools.chain(reductions(lang, tree, strat), canon_reductions(lang, tree, strat)):
            if fails(t2, s2):
                tree, strat = t2, s2
                changed = True
                steps += 1
                break
        if not changed and lang == "fr":
            t2 = to_en(tree)
            if fails_in("en", t2, strat):
                lang, tree = "en", t2
                changed = True
    return lang, tree, strat


def lex_class(lang, k, lem):
    if lem in SPECIAL:
        return "%s:%s" % (k, lem)
    return k


def signature(lang, tree, strat, kind):
    """the shrunk op list, handles as emitted, lexical items replaced by their class"""
    ops, root = Builder(lang, tree, strat, random.Random(0)).build()
    parts = []
    h = 0
    for op in ops:
        if op[0] == "mkT":
            parts.append("%d=%s" % (h, lex_class(lang, op[1]["k"], op[1]["lem"])))
            h += 1
        elif op[0] in ("mkP", "mkD"):
            parts.append("%d=%s(%s)" % (h, op[1], json.dumps(op[3], separators=(",", ":"))[1:-1]))
            h += 1
        elif op[0] == "add":
            parts.append("%d.add(%s%s)" % (op[1], json.dumps(op[2], separators=(",", ":")), "" if op[3] is None else ",%d" % op[3]))
        elif op[0] == "opt":
            parts.append("%d.%s(%s)" % (op[1], op[2], op[3]))
        elif op[0] == "typ":
            parts.append("%d.typ(%s)" % (op[1], json.dumps(op[2], separators=(",", ":"))))
    return "hist|%s|%s|%s" % (lang, kind, ";".join(parts))


def _link_view(w):
    """per handle: (frozenset of the handles sharing its peng, record content, same for taux)"""
    s = w.snap()
    res = {}
    nodes = s["nodes"]
    for i, nd in enumerate(nodes):
        pcs = frozenset(j for j, m in enumerate(nodes) if nd["pc"] is not None and m["pc"] == nd["pc"])
        tcs = frozenset(j for j, m in enumerate(nodes) if nd["tc"] is not None and m["tc"] == nd["tc"])
        res[i] = (pcs, core.canon(s["recs"].get(str(nd["pc"]))), tcs, core.canon(s["trecs"].get(str(nd["tc"]))),
                  nd["cod"], nd["subj"])
    return res, nodes


def classify(lang, tree, strat):
    """root-cause class of a `text` failure, computed on the SHRUNK history: the receiver of the last add with the kinds of
    its ancestors at that time, and which nodes (relative to the receiver) end with a different link state
    (p = partition by shared peng, r = content of the peng record, t = taux) than after one-shot construction"""
    ops, root = Builder(lang, tree, strat, random.Random(0)).build()
    w = _world()
    w.run(ops, snaps=False)
    bops, broot = rebuild_oneshot(w, ops, root)
    # map history handles to one-shot handles: rebuild emits nodes in post-order of the final tree
    order = []

    def post(x):
        o = w.objs[x]
        t = getattr(o, "terminal", None)
        if t is not None and hasattr(o, "dependents"):
            post(w._h(t))
        kids = getattr(o, "elements", None)
        if kids is None:
            kids = getattr(o, "dependents", [])
        for k in kids:
            post(w._h(k))
        order.append(x)
    post(root)
    a2b = {x: i for i, x in enumerate(order)}
    w3 = _world()
    w3.run(bops, snaps=False)
    va, na = _link_view(w)
    vb, nb = _link_view(w3)
    adds = [op for op in ops if op[0] == "add"]
    recv = adds[-1][1] if adds else None

    def ancestors(x):
        res = []
        p = na[x]["par"]
        while p is not None and p >= 0 and p not in res:
            res.append(p)
            p = na[p]["par"]
        return res
    anc = ancestors(recv) if recv is not None else []
    diffs = set()
    for x, bx in a2b.items():
        pa, ra, ta, tra, ca, sa = va[x]
        pb, rb, tb, trb, cb, sb = vb[bx]
        f = ""
        if (a2b.get(ca, ca) if isinstance(ca, int) else ca) != cb:
            f += "c"
        if (a2b.get(sa, sa) if isinstance(sa, int) else sa) != sb:
            f += "s"
        if frozenset(a2b[y] for y in pa if y in a2b) != pb:
            f += "p"
        if ra != rb:
            f += "r"
        if frozenset(a2b[y] for y in ta if y in a2b) != tb or tra != trb:
            f += "t"
        if not f:
            continue
        if recv is None:
            rel = "-"
        elif x == recv:
            rel = "self"
        elif na[x]["par"] == recv:
            rel = "child"
        elif recv in ancestors(x):
            rel = "desc"
        elif x in anc:
            rel = "anc"
        else:
            rel = "other"
        diffs.add("%s:%s:%s" % (rel, na[x]["k"], f))
    rels = {d.split(":")[0] for d in diffs}
    if recv is None:
        # no add at all: the constructor alone does not produce the link state of its own resulting child sequence
        # (the adjective re-ordering runs after linkProperties)
        nt = sorted(d.split(":")[1] for d in diffs if d.split(":")[1] in PHRASES + DEPS)
        return "no-add|stale=%s" % ",".join(nt)
    flat = {pth: ({k: v for k, v in st.items() if k != "topdown"} if isinstance(st, dict) else st) for pth, st in strat.items()}
    attached = any(isinstance(st, dict) and st.get("topdown") for st in strat.values())
    cross = False
    if attached:
        try:
            r2 = _check_history_core(lang, tree, flat)
        except Exception:  # noqa
            r2 = None
        cross = not (r2 and r2[0] == "text")
    if cross:
        # the failure disappears when every node is completed BEFORE it is attached to its parent.
        # (1) Does add() itself leave an ancestor un-re-linked?  Replay the history with an explicit bottom-up
        #     linkProperties() on every ancestor of the receiver right after EACH add: since 54ff0b6 add() does exactly that,
        #     so on a correct add() the replay changes nothing; if it changes the text, add() skipped an ancestor — a root
        #     cause of its own, never a known finding.
        from harness.impl import snapshot as _snap
        try:
            wh = _world()
            wh.run(ops, snaps=False)
            th = wh.realize(root)
            wq = _world()
            _snap.load(lang)
            for op in ops:
                if wq.run_op(op) is not None:
                    break
                if op[0] == "add":
                    o = wq.objs[op[1]].parentConst
                    seen = set()
                    while o is not None and id(o) not in seen:
                        seen.add(id(o))
                        o.linkProperties()
                        o = o.parentConst
            if wq.realize(root) != th:
                return "cross-level|an ancestor of the receiver was not re-linked|recv=%s|under=%s" % (
                    na[recv]["k"], "<".join(na[a]["k"] for a in anc))
        except Exception:  # noqa
            pass
        # (2) add() re-linked every ancestor at the time of the add, yet a full bottom-up re-link AFTER the whole history
        #     repairs the text: what the last link runs established was changed afterwards (an option applied after the last
        #     run to a value that linkProperties itself writes or copies) or can only be established by a run that a later
        #     operation does not trigger.  Classified by the boundary the link has to cross.
        try:
            wr = _world()
            wr.run(ops, snaps=False)
            o = wr.objs[recv].parentConst
            seen = set()
            _snap.load(lang)
            while o is not None and id(o) not in seen:
                seen.add(id(o))
                o.linkProperties()
                o = o.parentConst
            if wr.realize(root) == w3.realize(broot):
                chain = "<".join([na[recv]["k"]] + [na[a]["k"] for a in anc])
                if "S<NP" in chain or "SP<NP" in chain:
                    return "cross-level|re-link after the history repairs it|crosses=relative-clause"
                if "CP<" in chain or "coord<" in chain:
                    return "cross-level|re-link after the history repairs it|crosses=coordination"
                return "cross-level|re-link after the history repairs it|recv=%s|under=%s" % (
                    na[recv]["k"], "<".join(na[a]["k"] for a in anc))
        except Exception:  # noqa
            pass
        near = "none"
        for a in anc:
            if any(d.startswith("anc:%s:" % na[a]["k"]) for d in diffs):
                near = na[a]["k"]
                break
        return "cross-level|stale-ancestor=%s" % near
    fields = "".join(sorted(set("".join(d.split(":")[2] for d in diffs).replace("c", "p").replace("s", "p"))))
    return "within-node|recv=%s|differs=%s" % (na[recv]["k"], fields or "none")


def has_adj_and_noun(tree):
    """could the adjective re-ordering loop of Phrase.add move something somewhere in this tree?"""
    for _, nd in node_paths(tree):
        ks = [k["k"] for k in nd["kids"]]
        if "A" in ks and "N" in ks:
            return True
    return False


def spec_shape(tree):
    if is_term(tree):
        return [tree["k"], tree["lem"]]
    return [tree["k"], spec_shape(tree["term"]) if "term" in tree else None, [spec_shape(k) for k in tree["kids"]]]


_check_history_core = check_history


def check_history(lang, tree, strat):  # noqa: F811
    """adds to the metamorphic oracle the STRUCTURE clause: when no adjective can be re-ordered, the history must end with
    exactly the child sequences it asked for"""
    r = _check_history_core(lang, tree, strat)
    if r is not None and r[0] != "incomparable":
        return r
    if not has_adj_and_noun(tree):
        ops, root = Builder(lang, tree, strat, random.Random(strat.get("nestseed", 0) if isinstance(strat, dict) else 0)).build()
        w = _world()
        _, end = w.run(ops, snaps=False)
        if end == "ok":
            got, want = _norm_shape(shape(w, root)), _norm_shape(spec_shape(tree))
            if got != want:
                return ("structure", "children %s, asked for %s" % (json.dumps(got)[:300], json.dumps(want)[:300]))
    return r


def _norm_shape(s):
    if len(s) == 2:
        return [s[0], s[1].replace("œ", "oe")]
    return [s[0], _norm_shape(s[1]) if s[1] else None, [_norm_shape(k) if k != "?" else k for k in s[2]]]


def failure_signature(lang, tree, strat, kind, detail):
    if kind in ("raises", "oneshot-raises"):
        return "hist|%s|%s" % (kind, detail)
    if kind in ("addlist-order", "structure"):
        ops, _ = Builder(lang, tree, strat, random.Random(0)).build()
        adds = [op for op in ops if op[0] == "add"]
        how = "list" if adds and isinstance(adds[-1][2], list) else "child"
        pos = "none" if not adds or adds[-1][3] is None else "pos"
        recv = "-"
        if adds:
            hs = [op for op in ops if op[0] in ("mkT", "mkP", "mkD")]
            recv = hs[adds[-1][1]][1] if hs[adds[-1][1]][0] != "mkT" else hs[adds[-1][1]][1]["k"]
        if kind == "structure" and how == "list" and pos == "pos":
            kind = "addlist-order"      # the same defect, seen through the structure clause
        return "hist|%s|add(%s,%s)|recv=%s" % (kind, how, pos, "Phrase" if recv in PHRASES else "Dependent" if recv in DEPS else recv)
    return "hist|text|" + classify(lang, tree, strat)


# ------------------------------------------------------------------------------------------ fixed panel (exhaustive)

def panel():
    """expressions of both notations and languages with ≤ 4 children per node: every (constructor subset, insertion order)
    of every node is enumerated on them, bottom-up and top-down"""
    en = [
        P("S", P("NP", T("D", "the"), T("A", "big"), T("N", "cat", ["n", "p"]), P("PP", T("P", "on"), P("NP", T("D", "the"), T("N", "mouse")))),
          P("VP", T("V", "eat"), P("NP", T("D", "a"), T("N", "dog")), T("Adv", "quickly"))),
        P("S", T("Pro", "I"), P("VP", T("V", "be"), T("A", "good")), opts=[["t", "ps"]]),
        P("NP", T("D", "the"), T("N", "cat"), P("SP", T("Pro", "that"), P("VP", T("V", "sleep"))), opts=[["n", "p"]]),
        P("S", P("CP", T("C", "and"), P("NP", T("D", "the"), T("N", "cat")), P("NP", T("D", "the"), T("N", "dog"))), P("VP", T("V", "sleep"))),
        P("NP", T("NO", "2"), T("A", "red"), T("N", "mouse")),
        P("NP", T("D", "the"), T("N", "child", ["n", "p"]), P("SP", T("Pro", "who"), P("VP", T("V", "be"), T("A", "good")))),
        P("NP", T("D", "the"), T("N", "dog", ["n", "p"]), P("SP", T("Pro", "which"), P("VP", T("V", "eat"), P("NP", T("D", "a"), T("N", "mouse"))))),
        Dp("root", T("V", "eat"), Dp("subj", T("N", "cat", ["n", "p"]), Dp("det", T("D", "the")), Dp("mod", T("A", "big"))),
           Dp("comp", T("N", "mouse"), Dp("det", T("D", "a"))), Dp("mod", T("Adv", "quickly"))),
        Dp("root", T("V", "sleep"), Dp("coord", T("C", "and"), Dp("subj", T("N", "cat"), Dp("det", T("D", "the"))),
                                       Dp("subj", T("N", "dog"), Dp("det", T("D", "the"))))),
    ]
    fr = [
        P("S", P("NP", T("D", "le"), T("A", "grand"), T("N", "souris", ["n", "p"]), P("PP", T("P", "sur"), P("NP", T("D", "le"), T("N", "chat")))),
          P("VP", T("V", "manger"), P("NP", T("D", "un"), T("N", "femme")), T("Adv", "vite"))),
        P("S", P("NP", T("D", "le"), T("N", "femme")), P("VP", T("V", "être"), T("A", "petit")), opts=[["n", "p"]]),
        P("NP", T("D", "le"), T("N", "souris"), P("SP", T("Pro", "qui"), P("VP", T("V", "dormir"))), opts=[["n", "p"]]),
        P("NP", T("NO", "2"), T("N", "femme"), T("A", "rouge")),
        P("NP", T("D", "le"), T("N", "femme", ["n", "p"]), P("SP", T("Pro", "qui"), P("VP", T("V", "être"), T("A", "beau")))),
        P("NP", T("D", "le"), T("N", "souris", ["n", "p"]),
          P("SP", T("Pro", "que"), T("Pro", "je"), P("VP", T("V", "avoir"), T("V", "manger", ["t", "pp"])))),
        P("NP", T("D", "le"), T("N", "femme"), P("SP", T("Pro", "lequel"), P("VP", T("V", "dormir")))),
        Dp("root", T("V", "manger"), Dp("subj", T("N", "femme", ["n", "p"]), Dp("det", T("D", "le")), Dp("mod", T("A", "grand"))),
           Dp("comp", T("N", "souris"), Dp("det", T("D", "un"))), Dp("mod", T("Adv", "vite"))),
        Dp("root", T("V", "être"), Dp("subj", T("N", "femme"), Dp("det", T("D", "le"))), Dp("comp", T("A", "petit"))),
        Dp("root", T("V", "dormir"), Dp("coord", T("C", "et"), Dp("subj", T("N", "femme"), Dp("det", T("D", "le"))),
                                        Dp("subj", T("N", "chat"), Dp("det", T("D", "le"))))),
    ]
    return [("en", t) for t in en] + [("fr", t) for t in fr]


def panel_jobs():
    jobs = []
    for lang, tree in panel():
        for path, nd in node_paths(tree):
            n = len(nd["kids"])
            if n == 0 or n > 4:
                continue
            for init, order in all_orders(n):
                if not order:
                    continue
                for td in ((False, True) if path != () else (False,)):
                    jobs.append((lang, tree, {path: {"init": init, "order": order, "topdown": td, "posnone": (len(order) + len(init)) % 2 == 0}}))
        jobs.append((lang, tree, {}))
    return jobs


def malformed_jobs(rng, n):
    """histories outside the valid stream: non-Constituent children, out-of-range positions, lists/tuples/None passed to add,
    adding to a terminal, options with illegal values or receivers"""
    jobs = []
    for _ in range(n):
        lang, tree = gtree(rng)
        ops, root = Builder(lang, tree, {}, rng).build()
        nh = len([o for o in ops if o[0] in ("mkT", "mkP", "mkD")])
        kinds = [o[1] if o[0] != "mkT" else o[1]["k"] for o in ops if o[0] in ("mkT", "mkP", "mkD")]
        extra = []
        for _ in range(rng.randint(1, 4)):
            x = rng.randrange(nh)
            c = rng.random()
            if c < 0.25:
                extra.append(["add", x, rng.choice([None, {"bad": 1}, [], [None], [{"bad": 1}, None], {"t": []}]), rng.choice([None, 0, 1])])
            elif c < 0.5:
                extra.append(["mkT", {"k": rng.choice(["N", "A", "D", "V", "Adv"]), "lang": lang,
                                      "lem": word(rng, lang, rng.choice(["N", "A", "D", "V", "Adv"]))}])
                extra.append(["add", x, nh, rng.choice([-1, 0, 1, 2, 7, 99, None])])
                nh += 1
                kinds.append("T")
            elif c < 0.75:
                extra.append(["opt", x, rng.choice(["n", "g", "pe", "t", "pos", "poss", "ow", "aux"]),
                              rng.choice(["p", "s", "f", "zz", 1, 4, True, False, None, "pp", "pre"])])
            else:
                kk = rng.choice(PHRASES if rng.random() < 0.6 else DEPS)
                extra.append(["mkP" if kk in PHRASES else "mkD", kk, lang, [rng.choice([x, None, {"bad": 1}, [x], []])]])
                nh += 1
                kinds.append("P")
        jobs.append(("ops", ops + extra, root))
    return jobs


# ------------------------------------------------------------------------------------------ typ: correspondence + oracle

def allowed_types():
    from harness.translate import typconsts
    return typconsts.extract_allowed()[0]


IDIOMS = {
    "neFalse": lambda T, K: K in T and T[K] != False,       # noqa: E712
    "eqTrue": lambda T, K: K in T and T[K] == True,         # noqa: E712
    "isNotFalse": lambda T, K: K in T and T[K] is not False,
    "isTrue": lambda T, K: K in T and T[K] is True,
    "truthy": lambda T, K: bool(K in T and T[K]),
    "getTruthy": lambda T, K: bool(T.get(K)),
    "guardedValue": lambda T, K: [T[K]] if (K in T and T[K] is not False) else "skipped",
    "inOnly": lambda T, K: K in T,
    "getRaw": lambda T, K: [T.get(K)],
}


def _jv(v):
    return v if isinstance(v, (str, int, bool, type(None))) else {"other": True}


def impl_typ(line):
    """the real Constituent.typ on a fresh receiver; every call gets a fresh dict"""
    import pyrealb
    from harness.impl import snapshot
    snapshot._patch()
    snapshot.load(line["lang"])
    k = line["recv"]
    if k in TERMINALS:
        o = getattr(pyrealb, k)(LEX[line["lang"]].get(k, ["x"])[0])
    elif k in PHRASES:
        o = getattr(pyrealb, k)()
    else:
        o = getattr(pyrealb, k)(pyrealb.V(LEX[line["lang"]]["V"][0]))
    res = []
    for c in line["calls"]:
        arg = dict((a, _pv(b)) for a, b in c) if isinstance(c, list) else 5
        w0 = snapshot._state["warns"]
        try:
            o.typ(arg)
        except Exception as e:  # noqa
            return {"err": snapshot.err_name(e)}
        st = o.props.get("typ")
        res.append({"w": snapshot._state["warns"] - w0,
                    "caller": sorted([a, _jv(b)] for a, b in arg.items()) if isinstance(arg, dict) else None,
                    "stored": sorted([a, _jv(b)] for a, b in st.items()) if isinstance(st, dict) else None})
    st = o.props.get("typ") or {}
    keys = list(allowed_types().keys())
    reads = {}
    for nm, f in IDIOMS.items():
        reads[nm] = [_jr(f(st, key)) for key in keys]
    un = []
    for key in keys:
        try:
            un.append([_jv(st[key])])
        except KeyError:
            un.append("KeyError")
    reads["unguarded"] = un
    return {"calls": res, "reads": reads}


def _pv(v):
    """JSON value -> Python value ({"other":…} stands for an object that equals nothing)"""
    if isinstance(v, dict):
        return ("other",)
    return v


def _jr(x):
    if isinstance(x, list):
        return [_jv(x[0])]
    return x


def typ_value_pool(key, allowed, rng):
    legal = allowed.get(key, [True, False])
    junk = ["xx", 0, 1, 2, None, "", {"other": True}, "plus", True, False]
    return rng.choice(legal) if rng.random() < 0.7 else rng.choice(junk)


def gen_typ_lines(rng, n):
    allowed = allowed_types()
    keys = list(allowed.keys())
    lines = []
    for _ in range(n):
        calls = []
        for _ in range(rng.randint(1, 4)):
            if rng.random() < 0.06:
                calls.append("notdict")
                continue
            ks = rng.sample(keys + ["foo", "Neg", ""], rng.randint(0, 4))
            calls.append([[k, typ_value_pool(k, allowed, rng)] for k in ks])
        recv = rng.choice(["S", "S", "S", "SP", "VP", "root", "subj", "coord", "NP", "N", "PP", "comp"])
        lines.append({"op": "typ", "lang": rng.choice(["en", "fr"]), "recv": recv, "calls": calls})
    return lines


SENTENCES = {
    ("en", "phrase"): lambda: P("S", P("NP", T("D", "the"), T("N", "cat")), P("VP", T("V", "eat"), P("NP", T("D", "a"), T("N", "mouse")))),
    ("en", "dep"): lambda: Dp("root", T("V", "eat"), Dp("subj", T("N", "cat"), Dp("det", T("D", "the"))),
                              Dp("comp", T("N", "mouse"), Dp("det", T("D", "a")))),
    ("fr", "phrase"): lambda: P("S", P("NP", T("D", "le"), T("N", "chat")), P("VP", T("V", "manger"), P("NP", T("D", "un"), T("N", "souris")))),
    ("fr", "dep"): lambda: Dp("root", T("V", "manger"), Dp("subj", T("N", "chat"), Dp("det", T("D", "le"))),
                              Dp("comp", T("N", "souris"), Dp("det", T("D", "un")))),
    ("en", "phrase2"): lambda: P("S", T("Pro", "I"), P("VP", T("V", "love"), P("NP", T("D", "the"), T("N", "dog")), P("PP", T("P", "in"), P("NP", T("D", "the"), T("N", "water"))))),
    ("fr", "phrase2"): lambda: P("S", T("Pro", "je"), P("VP", T("V", "aimer"), P("NP", T("D", "le"), T("N", "femme")), P("PP", T("P", "dans"), P("NP", T("D", "le"), T("N", "eau"))))),
}


def realize_typ(lang, which, calls):
    """text (and number of warnings of the typ calls) of the fixed sentence after the given typ() calls"""
    from harness.impl import snapshot
    tree = SENTENCES[(lang, which)]()
    ops, root = oneshot(lang, tree)
    w = _world()
    _, end = w.run(ops, snaps=False)
    w0 = snapshot._state["warns"]
    for c in calls:
        e = w.run_op(["typ", root, c])
        if e:
            return "!" + e, 0
    nw = snapshot._state["warns"] - w0
    return w.realize(root), nw


def canon_calls(d):
    return [[[k, v] for k, v in d]]


def typ_variants(d, allowed, rng, full):
    """(variant name, list of typ() calls) that must all realize like ONE call with the dict `d` (list of pairs, values
    legal and not False)"""
    keys = [k for k, _ in d]
    n = len(d)
    out = []
    perms = list(itertools.permutations(d))
    if not full and len(perms) > 6:
        perms = rng.sample(perms, 6)
    for pm in perms:
        out.append(("perm", [[list(x) for x in pm]]))
        cuts = list(itertools.product([0, 1], repeat=max(n - 1, 0)))
        if not full and len(cuts) > 3:
            cuts = rng.sample(cuts, 3)
        for cut in cuts:
            if not any(cut):
                continue
            calls, cur = [], [list(pm[0])] if n else []
            for i, c in enumerate(cut):
                if c:
                    calls.append(cur)
                    cur = []
                cur.append(list(pm[i + 1]))
            calls.append(cur)
            out.append(("split", calls))
    absent = [k for k in allowed if k not in keys]
    for k in absent:
        out.append(("false=absent", [[[a, b] for a, b in d] + [[k, False]]]))
        out.append(("false=absent", [[[k, False]], [[a, b] for a, b in d]]))
    if absent:
        out.append(("false=absent", [[[k, False] for k in absent] + [[a, b] for a, b in d]]))
    for k, v in d:
        others = [x for x in allowed[k] if x != v]
        for v2 in (others if full else rng.sample(others, min(2, len(others)))):
            out.append(("later-wins", [[[k, v2]], [[a, b] for a, b in d]]))
    for k in absent:
        v2 = [x for x in allowed[k] if x is not False][0]
        out.append(("later-false", [[[a, b] for a, b in d] + [[k, v2]], [[k, False]]]))
    # since 6301216 a numeric 0 is stored as False (French neg: rejected, so absent as well): 0 = absent
    for k in absent:
        out.append(("zero=absent", [[[a, b] for a, b in d] + [[k, 0]]]))
        if k != "neg":
            v2 = [x for x in allowed[k] if x is not False][0]
            out.append(("later-zero", [[[a, b] for a, b in d] + [[k, v2]], [[k, 0]]]))
    out.append(("invalid", [[[a, b] for a, b in d] + [["foo", True]]]))
    out.append(("invalid", [[["foo", "bar"]], [[a, b] for a, b in d]]))
    out.append(("invalid", [[[a, b] for a, b in d], "notdict"]))
    for k in absent:
        bad = "xx" if k != "neg" else 3
        out.append(("invalid", [[[a, b] for a, b in d] + [[k, bad]]]))
    for k, v in d:
        bad = "xx" if k != "neg" else 3
        out.append(("invalid-keeps-earlier", [[[a, b] for a, b in d], [[k, bad]]]))
    return out


def typ_flagsets(rng, tier, allowed):
    """the dicts (lists of pairs in allowedTypes order, legal non-False values) to test"""
    keys = list(allowed.keys())
    vals = {k: [v for v in allowed[k] if v is not False] for k in keys}
    sets = [[]]
    for k in keys:
        for v in vals[k]:
            sets.append([[k, v]])
    pairs = list(itertools.combinations(keys, 2))
    for a, b in pairs:
        if tier == "thorough":
            for va in vals[a]:
                for vb in vals[b]:
                    sets.append([[a, va], [b, vb]])
        else:
            sets.append([[a, rng.choice(vals[a])], [b, rng.choice(vals[b])]])
    for size, cnt in ((3, 16 if tier == "quick" else 200), (4, 10 if tier == "quick" else 150), (6, 3 if tier == "quick" else 30)):
        for _ in range(cnt):
            ks = sorted(rng.sample(keys, size), key=keys.index)
            sets.append([[k, rng.choice(vals[k])] for k in ks])
    return sets


def typ_oracle_job(job):
    """all variants of one (sentence, dict): returns (n evaluated, failures)"""
    lang, which, d, seed, full = job
    core.ensure_repo_on_path()
    allowed = allowed_types()
    rng = random.Random(seed)
    base, _ = realize_typ(lang, which, canon_calls(d))
    fails = []
    n = 1
    if not d:
        t0, _ = realize_typ(lang, which, [])
        n += 1
        if t0 != base:
            fails.append(("empty-vs-no-call", [], t0, base))
    for name, calls in typ_variants(d, allowed, rng, full and len(d) <= 4):
        t, nw = realize_typ(lang, which, calls)
        n += 1
        if t != base:
            fails.append((name, calls, t, base))
        elif name.startswith("invalid") and nw == 0:
            fails.append((name + ":no-warning", calls, t, base))
    return n, [(lang, which, d, f) for f in fails]


def typ_shrink(lang, which, d, name, calls):
    """drop flags while the variant of the same kind still fails; returns the minimal dict"""
    allowed = allowed_types()
    cur = list(d)
    changed = True
    while changed:
        changed = False
        for i in range(len(cur)):
            d2 = cur[:i] + cur[i + 1:]
            base, _ = realize_typ(lang, which, canon_calls(d2))
            bad = False
            for nm, cs in typ_variants(d2, allowed, random.Random(0), True):
                if nm == name:
                    t, _ = realize_typ(lang, which, cs)
                    if t != base:
                        bad = True
                        break
            if bad:
                cur = d2
                changed = True
                break
    return cur


# ------------------------------------------------------------------------------------------ _getElems

def gen_getelems(rng, n):
    def item():
        return rng.choice([0, 1, 2, "", "a", "bb", False, True, 7, "None"])

    def lst(depth):
        out = []
        for _ in range(rng.choice([0, 1, 2, 3, 4])):
            x = rng.random()
            if x < 0.45 or depth > 3:
                out.append(item())
            elif x < 0.65:
                out.append(None)
            else:
                sub = lst(depth + 1)
                out.append(sub if rng.random() < 0.7 else {"t": sub})
        return out
    return [{"op": "getelems", "arg": lst(0)} for _ in range(n)]


def _py_arg(a):
    if isinstance(a, list):
        return [_py_arg(x) for x in a]
    if isinstance(a, dict):
        return tuple(_py_arg(x) for x in a["t"])
    return a


def _ref_flatten(a):
    """reference: in-order items, None dropped"""
    out = []
    for x in a:
        if x is None:
            continue
        if isinstance(x, (list, tuple)):
            out.extend(_ref_flatten(x))
        else:
            out.append(x)
    return out


def impl_getelems(line):
    from pyrealb.utils import _getElems
    try:
        return {"res": [_jv(x) for x in _getElems(_py_arg(line["arg"]))]}
    except Exception as e:  # noqa
        return {"err": type(e).__name__}


# ------------------------------------------------------------------------------------------ the check

META = {
    "ops": "hist,typ,getelems",
    "driver": "drv_tree",
    "translators": ["typconsts"],
    "technique": "Lean 4 proof on a store model (plans of assignments, absorption of earlier link runs) + differential "
                 "correspondence on histories + metamorphic oracle on the implementation",
    "level_text": "Kernel-checked: _getElems = in-order flattening for all nestings (idempotent); insertion orders give the same "
                  "list; link_confluent REFUTED (within a node the links are computed before the adjective re-ordering; across levels, "
                  "also after the repair that re-links the ancestors, a link written by an earlier run on a node the final runs no "
                  "longer write survives) and proved for every history under the side condition that the final link runs (receiver, "
                  "then ancestors) rewrite every location written earlier and compile to the same constant writes; typ: merge order-"
                  "free, split-equivalent, later-wins, False=absent for every reader idiom of the generated site inventory (decide), "
                  "invalid entries ignored — for all lists of dicts. Tie: histories run on the real objects and on the model, "
                  "abstraction compared after every prefix.",
    "level_note": "Trusted: terminal construction (initial record contents are inputs read from the real terminal); realization is "
                  "not modelled: text equality is checked on the implementation by the metamorphic oracle, not proved.",
    "rule": "histories (mk/add/addlist/opt/typ) over integer handles: every (constructor subset, insertion order) x bottom-up/"
            "top-down for every node of a fixed panel of 14 expressions (both notations, both languages, <=4 children per "
            "node) + seeded random trees/strategies + malformed stream; typ: all key permutations and splittings for <=4 "
            "flags, False vs absent, later-wins, invalid entries; non-trivial = a history with at least one late add / a "
            "typ line with at least one call whose canonical (line, answer) pair is new",
    "assumptions": ["A_terminal: the own props and the peng/taux contents of a freshly built Terminal are inputs of the model",
                    "A_realize: realization is a function of the abstraction (tree, own props, partition, record contents); "
                    "validated only through the metamorphic oracle on the implementation"],
    "trusted": ["Constituent.warn wrapped at run time to count warnings (no source change)"],
}


def _hist_worker(task):
    """runs a chunk of history jobs on the real code (snapshots after every op) and on the model; oracle on each"""
    idx, jobs, do_oracle = task
    core.ensure_repo_on_path()
    lines, impls, meta = [], [], []
    fails = []
    stats = {"hist": 0, "late_adds": 0, "ops": 0, "end": {}, "oracle": {}}
    for job in jobs:
        if job[0] == "ops":
            _, ops, root = job
            lang = tree = strat = None
        else:
            lang, tree, strat = job
            ops, root = Builder(lang, tree, strat, random.Random(strat.get("nestseed", 0) if strat else 0)).build()
        w = _world()
        snaps, end = w.run(ops)
        lines.append({"op": "hist", "ops": w.specs})
        impls.append((snaps, end))
        meta.append(job)
        stats["hist"] += 1
        stats["ops"] += len(ops)
        stats["late_adds"] += len([o for o in ops if o[0] == "add"])
        stats["end"][end] = stats["end"].get(end, 0) + 1
        if do_oracle and tree is not None:
            try:
                r = check_history(lang, tree, strat)
            except Exception as e:  # noqa
                r = ("oracle-error", repr(e)[:200])
            k = r[0] if r else "same"
            stats["oracle"][k] = stats["oracle"].get(k, 0) + 1
            if r and r[0] != "incomparable":
                fails.append((lang, tree, strat, r[0], r[1]))
    model = core.run_driver(lines, META["driver"])
    diffs = []
    outside = 0
    nontriv = []
    for l, m, (snaps, end), job in zip(lines, model, impls, meta):
        if "driver_error" in m:
            diffs.append((l, m, {"end": end}))
            continue
        if m["end"] == "outside":
            outside += 1
            k = len(m["snaps"])
            if [core.canon(x) for x in m["snaps"]] != [core.canon(x) for x in snaps[:k]]:
                diffs.append((l, {"end": m["end"], "prefix": k}, {"end": end}))
            continue
        a = {"end": end, "snaps": snaps}
        if core.canon(m) != core.canon(a):
            # keep the first differing prefix only
            k = 0
            while k < min(len(m["snaps"]), len(snaps)) and core.canon(m["snaps"][k]) == core.canon(snaps[k]):
                k += 1
            diffs.append(({"op": "hist", "ops": l["ops"][:k + 1]},
                          {"end": m["end"], "n": len(m["snaps"]), "snap": m["snaps"][k] if k < len(m["snaps"]) else None},
                          {"end": end, "n": len(snaps), "snap": snaps[k] if k < len(snaps) else None}))
        nontriv.append((core.canon(l)[:4000], end, any(o[0] == "add" for o in l["ops"])))
    # shrink the failures here (parallel)
    memo = {}
    out_f = []
    for lang, tree, strat, kind, detail in fails:
        try:
            l2, t2, s2 = shrink(lang, tree, strat, kind, memo)
            r2 = check_history(l2, t2, s2)
            if not r2 or r2[0] != kind:
                l2, t2, s2, r2 = lang, tree, strat, (kind, detail)
            sig = failure_signature(l2, t2, s2, kind, r2[1])
            sops, sroot = Builder(l2, t2, s2, random.Random(0)).build()
            out_f.append((sig, {"lang": l2, "ops": sops, "root": sroot, "shrunk": signature(l2, t2, s2, kind)}, r2[1]))
        except Exception as e:  # noqa
            out_f.append(("hist|shrink-error|" + kind, {"lang": lang, "tree": tree}, repr(e)[:300]))
    return {"stats": stats, "diffs": diffs[:20], "ndiffs": len(diffs), "outside": outside, "fails": out_f, "nontriv": nontriv}


def _simple_worker(task):
    kind, lines = task
    core.ensure_repo_on_path()
    f = impl_typ if kind == "typ" else impl_getelems
    model_lines = lines if kind == "typ" else [{"op": "getelems", "arg": World_model_arg(l["arg"])} for l in lines]
    model = core.run_driver(model_lines, META["driver"])
    res = []
    for l, m in zip(lines, model):
        a = f(l)
        res.append((l, m, a))
    return res


def World_model_arg(a):
    if isinstance(a, list):
        return [World_model_arg(x) for x in a]
    if isinstance(a, dict) and "t" in a:
        return [World_model_arg(x) for x in a["t"]]
    return a


def _merge(d, e):
    for k, v in e.items():
        if isinstance(v, dict):
            _merge(d.setdefault(k, {}), v)
        else:
            d[k] = d.get(k, 0) + v


def run(ctx, deep=False):
    import multiprocessing as mp
    core.ensure_repo_on_path()
    thorough = ctx.tier == "thorough" or deep
    rng = ctx.rng
    nproc = min(16, os.cpu_count() or 4)
    # ---- jobs
    jobs = panel_jobs()
    n_panel = len(jobs)
    n_rand = 260 if not thorough else 2500
    for _ in range(n_rand):
        lang, tree = gtree(rng)
        for st in histories_of(rng, lang, tree, budget=8 if not thorough else 24):
            for v in st.values():
                v.setdefault("nestseed", rng.randrange(10 ** 6))
            jobs.append((lang, tree, st))
    jobs += malformed_jobs(rng, 160 if not thorough else 2000)
    rng.shuffle(jobs)
    chunks = [jobs[i::nproc * 4] for i in range(nproc * 4)]
    tasks = [(i, c, True) for i, c in enumerate(chunks) if c]
    typ_lines = gen_typ_lines(rng, 1500 if not thorough else 20000)
    ge_lines = gen_getelems(rng, 1500 if not thorough else 20000)
    allowed = allowed_types()
    tjobs = []
    for (lang, which) in SENTENCES:
        if not thorough and which == "phrase2":
            continue
        for d in typ_flagsets(rng, "thorough" if thorough else "quick", allowed):
            tjobs.append((lang, which, d, rng.randrange(10 ** 9), thorough or len(d) <= 3))
    with mp.get_context("fork").Pool(nproc) as pool:
        r_hist = pool.map_async(_hist_worker, tasks, chunksize=1)
        r_typ = pool.map_async(_simple_worker, [("typ", typ_lines[i::nproc]) for i in range(nproc)], chunksize=1)
        r_ge = pool.map_async(_simple_worker, [("getelems", ge_lines[i::nproc]) for i in range(nproc)], chunksize=1)
        r_to = pool.map_async(typ_oracle_job, tjobs, chunksize=8)
        hist_res = r_hist.get()
        typ_res = r_typ.get()
        ge_res = r_ge.get()
        to_res = r_to.get()
    # ---- histories
    stats = {}
    nd = 0
    seen = set()
    for r in hist_res:
        _merge(stats, r["stats"])
        stats["outside"] = stats.get("outside", 0) + r["outside"]
        nd += r["ndiffs"]
        for l, m, a in r["diffs"]:
            ctx.diff(l, m, a)
        for cl, end, has_add in r["nontriv"]:
            ctx.cov["traces_validated_against_impl"] += 1
            ctx.count({"op": "hist", "ops": "…", "h": hash(cl) & 0xffffffff}, end, trivial=not has_add)
            if has_add:
                ctx.distinct.add(cl[:200].encode() + str(hash(cl)).encode())
        for sig, inp, detail in r["fails"]:
            if (sig, core.canon(inp)) not in seen:
                seen.add((sig, core.canon(inp)))
                ctx.fail(sig, inp, detail)
    ctx.notes["histories"] = stats
    ctx.notes["panel_histories"] = n_panel
    ctx.exhaustive = True
    ctx.notes["exhaustive_scope"] = ("every (constructor subset, insertion order) x bottom-up/top-down of every node (<=4 children) "
                                     "of the 14 panel expressions: %d histories" % n_panel)
    # ---- typ and getelems correspondence
    dist = {}
    for res in typ_res:
        for l, m, a in res:
            ctx.cov["traces_validated_against_impl"] += 1
            ctx.count(l, a, trivial=not any(isinstance(c, list) and c for c in l["calls"]))
            if "driver_error" in m or core.canon(m) != core.canon(a):
                ctx.diff(l, m, a)
            dist[l["recv"]] = dist.get(l["recv"], 0) + 1
            if "err" in a:
                ctx.fail("typ|raises|" + a["err"], l, "Constituent.typ raised")
    for res in ge_res:
        for l, m, a in res:
            ctx.cov["traces_validated_against_impl"] += 1
            ctx.count(l, a, trivial=not any(isinstance(x, (list, dict)) for x in l["arg"]))
            if "driver_error" in m or core.canon(m) != core.canon(a):
                ctx.diff(l, m, a)
            # direct oracle: in-order flattening, None dropped; idempotent
            want = [_jv(x) for x in _ref_flatten(_py_arg(l["arg"]))]
            if a.get("res") != want:
                ctx.fail("getelems|not-the-flattening", l, "got %r want %r" % (a.get("res"), want))
            else:
                from pyrealb.utils import _getElems
                once = _getElems(_py_arg(l["arg"]))
                if _getElems(once) != once:
                    ctx.fail("getelems|not-idempotent", l, "")
    ctx.notes["typ_lines_by_receiver"] = dist
    # ---- typ oracle
    n_eval = 0
    tseen = set()
    n_tf = 0
    for n, fails in to_res:
        n_eval += n
        for lang, which, d, (name, calls, got, want) in fails:
            n_tf += 1
            if n_tf > 60:                      # enough to report; the rest is counted
                ctx.notes["typ_oracle_failures_not_shrunk"] = ctx.notes.get("typ_oracle_failures_not_shrunk", 0) + 1
                continue
            try:
                d2 = typ_shrink(lang, which, d, name.split(":")[0], calls) if not name.endswith("no-warning") and name != "empty-vs-no-call" else d
            except Exception:  # noqa
                d2 = d
            sig = "typ|%s|%s|%s|flags=%s" % (name, lang, "dep" if which == "dep" else "phrase",
                                             ",".join("%s=%s" % (k, v) for k, v in d2))
            if sig not in tseen:
                tseen.add(sig)
                ctx.fail(sig, {"lang": lang, "sentence": which, "dict": d, "calls": calls}, "got %r, one call gives %r" % (got, want))
    ctx.cov["evaluations"] += n_eval
    ctx.notes["typ_oracle_realizations"] = n_eval
    ctx.notes["typ_oracle_dicts"] = len(tjobs)
    # ---- the reader inventory: every site must use an idiom that cannot tell False from absent
    sites = core.run_driver([{"op": "sites"}], META["driver"])[0]
    ctx.notes["reader_sites"] = sites.get("n")
    for b in sites.get("bad", []):
        ctx.fail("typ|reader-distinguishes-False-from-absent|" + b, {"site": b}, "reader idiom tells False from an absent key")


def search(ctx):
    run(ctx, deep=True)


def replay(path):
    d = json.load(open(path))
    inp = d.get("input", {})
    if isinstance(inp, dict) and "input" in inp:
        inp = inp["input"]
    core.ensure_repo_on_path()
    if "ops" in inp:
        w = _world()
        snaps, end = w.run(inp["ops"], snaps=False)
        print("history :", json.dumps(inp["ops"], ensure_ascii=False))
        print("end     :", end, w.last_exc or "")
        if end == "ok":
            b, br = rebuild_oneshot(w, inp["ops"], inp["root"])
            w2 = _world()
            w2.run(b, snaps=False)
            print("text    :", w.realize(inp["root"]))
            print("one-shot:", w2.realize(br))
    elif "calls" in inp:
        print("typ calls:", json.dumps(inp["calls"], ensure_ascii=False))
        print("text     :", realize_typ(inp["lang"], inp["sentence"], inp["calls"]))
        print("one call :", realize_typ(inp["lang"], inp["sentence"], canon_calls(inp["dict"])))
    else:
        print(json.dumps(inp, ensure_ascii=False))
    print("detail  :", d.get("input", {}).get("detail", d.get("detail")))
    return 0
