"""C20 — oneOf / choice / mix.  Model: lean/Pyrealb/Model/OneOf.lean ; theorems: Props/C20.lean.

Correspondence: histories of calls with a *scripted* random source (every shuffle outcome is chosen by the
harness) are run through the real `pyrealb.utils` and through the model driver.
Oracle (the property stated on the implementation): block permutation, no back-to-back repeat, key
independence, choice membership, mix permutation + caller list unchanged, callables called iff selected, once.
"""
import itertools

from harness import core

META = {
    "ops": "oneof,choice,mix",
    "driver": "drv_oneof",
    "translators": [],
    "technique": "Lean 4 proof (induction over call histories, all shuffle outcomes) + correspondence with scripted random source",
    "level_text": "Kernel-checked theorems for every n>=2, every history length and every sequence of shuffle outcomes: no "
                  "back-to-back repeat, every aligned block a permutation, key independence for any interleaving, choice "
                  "membership, mix permutation, callables called iff selected. Tie: hand-written model run against the real "
                  "utils.oneOf/choice/mix on exhaustive (n<=3 quick, n<=4 thorough) and sampled histories with the random "
                  "source scripted; the same histories are checked by a direct oracle on the implementation.",
    "level_note": "Trusted: Lean kernel; the model/implementation correspondence (differential, finite); A_shuffle (random.shuffle "
                  "permutes; repr() of the alternatives identifies a site). Mixing list- and varargs-style calls on the same "
                  "alternatives is read as two sites.",
    "rule": "histories of oneOf calls with every shuffle outcome scripted: exhaustive over all sequences of "
            "permutations consulted in 3 cycles (+1 call) for n<=3 (quick) / n<=4 (thorough), sampled n=5..6, "
            "two- and three-key interleavings (same and different lengths), list vs varargs, callables at "
            "every position; non-trivial = history with n>=2 whose canonical line/answer pair is new",
    "assumptions": ["A_shuffle: random.shuffle leaves a permutation of its argument (the scripted source "
                    "provides every permutation); repr() of the alternatives identifies the call site"],
    "trusted": ["random.shuffle / random.choice replaced by a scripted source inside pyrealb.utils for the run"],
}


class ScriptMismatch(Exception):
    """the implementation shuffled a list whose length is not the number of alternatives of the call"""


class Script:
    """stands for the `random` module inside pyrealb.utils"""

    def __init__(self):
        self.perm = None
        self.r = None
        self.shuffles = 0

    def shuffle(self, x):
        self.shuffles += 1
        p = self.perm
        if p is None or sorted(p) != list(range(len(x))):
            if p is None:
                raise core.Infra("scripted shuffle: no outcome scripted")
            raise ScriptMismatch("shuffle of a list of %d, the call has %d alternatives" % (len(x), len(p)))
        old = list(x)
        x[:] = [old[i] for i in p]

    def choice(self, seq):
        return seq[self.r]


def setup():
    import pyrealb.utils as U
    sc = Script()
    U.random = sc
    return U, sc


def make_alts(alts, log, site="x"):
    """alts: string over v/f -> python alternatives (values distinct per site, so that repr(elems) identifies the
    site as the property assumes); callables log their index"""
    res = []
    for i, c in enumerate(alts):
        if c == "f":
            res.append((lambda i=i: (log.append(i), "r%d@%s" % (i, site))[1]))
        elif c == "l":      # an alternative that is itself a python list (a value like any other)
            res.append(["r%d@%s" % (i, site), "x"])
        else:
            res.append("r%d@%s" % (i, site))
    return res


def idx_of(v):
    if v is None:
        return None
    if isinstance(v, str) and v.startswith("r"):
        return int(v[1:].split("@")[0])
    if isinstance(v, list) and len(v) == 2 and isinstance(v[0], str) and v[0].startswith("r") and v[1] == "x":
        return int(v[0][1:].split("@")[0])
    if isinstance(v, str):
        return "not-an-alternative:" + v
    return "callable-returned"  # an uncalled callable escaped


def impl_oneof(line, U, sc):
    U.pyrealb_oneOf_dict.clear()
    sites = {}
    out = []
    for c in line["calls"]:
        site = c["site"]
        if site not in sites:
            log = []
            sites[site] = (make_alts(c["alts"], log, site), log)
        alts, log = sites[site]
        del log[:]
        sc.perm = c["perm"]
        if c.get("load"):   # a language switch between two calls: the histories are per alternatives, not per language
            import pyrealb
            (pyrealb.loadEn if c["load"] == "en" else pyrealb.loadFr)()
        try:
            v = U.oneOf(*alts) if c["style"] == "args" else U.oneOf(alts)
            out.append([idx_of(v), list(log)])
        except core.Infra:
            raise
        except Exception as e:  # noqa
            out.append("err")
    U.pyrealb_oneOf_dict.clear()
    return {"res": out}


def impl_choice(line, U, sc):
    log = []
    alts = make_alts(line["alts"], log)
    sc.r = line["r"]
    try:
        v = U.choice(*alts) if line.get("style") == "args" else U.choice(alts)
        return {"res": [idx_of(v), list(log)]}
    except Exception:
        return {"res": "err"}


def impl_mix(line, U, sc):
    log = []
    alts = make_alts(line["alts"], log)
    before = list(alts)
    sc.perm = line["perm"]
    try:
        v = U.mix(*alts) if line.get("style") == "args" else U.mix(alts)
    except core.Infra:
        raise
    except Exception:
        return {"order": "err", "called": []}
    return {"order": [idx_of(x) for x in v], "called": list(log),
            "caller_list_unchanged": all(a is b for a, b in zip(alts, before)) and len(alts) == len(before)}


# --------------------------------------------------------------------------------------------- generation

def site_key(site, alts, style):
    # what repr(elems) distinguishes: the harness gives every site its own alternatives list; values of two
    # sites of equal length and equal callable pattern are made different by the site id
    return "%s|%s|%s" % (site, alts, style)


def history_single(n, perms, alts=None, style="list", ncalls=None):
    ident = list(range(n))
    ncalls = ncalls if ncalls is not None else 3 * n + 1
    shuffle_calls = [0] + [k * n - 1 for k in range(1, ncalls // max(n, 1) + 2)]
    calls = []
    pi = 0
    alts = alts or "v" * n
    for k in range(ncalls):
        if k in shuffle_calls and n >= 2 and pi < len(perms):
            p = list(perms[pi])
            pi += 1
        else:
            p = ident
        calls.append({"site": "s0", "key": site_key("s0", alts, style), "alts": alts, "perm": p, "style": style})
    return {"op": "oneof", "calls": calls}


def gen_lines(ctx, deep=False):
    rng = ctx.rng
    lines = []
    nmax_exh = 4 if (ctx.tier == "thorough" or deep) else 3
    # exhaustive single-site histories
    for n in range(0, nmax_exh + 1):
        if n < 2:
            lines.append(history_single(n, [], ncalls=4))
            if n == 1:
                lines.append(history_single(1, [], alts="f", ncalls=3))
                lines.append(history_single(1, [], alts="f", ncalls=3, style="args"))
            continue
        perms = list(itertools.permutations(range(n)))
        for combo in itertools.product(perms, repeat=4):
            lines.append(history_single(n, combo))
    # sampled larger n
    for n in (5, 6, 7):
        for _ in range(400 if ctx.tier == "quick" else 20000):
            combo = [rng.sample(range(n), n) for _ in range(5)]
            alts = "".join(rng.choice("vvf") for _ in range(n))
            lines.append(history_single(n, combo, alts=alts, style=rng.choice(["list", "args"]), ncalls=4 * n + 2))
    # adversarial: every reshuffle ends with the index just returned (forces the swap each time)
    for n in range(2, 8):
        calls = []
        last = list(range(n))
        for k in range(4 * n):
            calls.append({"site": "s0", "key": site_key("s0", "v" * n, "list"), "alts": "v" * n, "perm": list(last), "style": "list"})
        lines.append({"op": "oneof", "calls": calls})
    # interleavings of several sites (same length / different lengths / same alts pattern)
    for _ in range(600 if ctx.tier == "quick" else 30000):
        k = rng.choice([2, 2, 3])
        sites = []
        for s in range(k):
            n = rng.choice([2, 2, 3, 3, 4, 5])
            alts = "".join(rng.choice("vvvf") for _ in range(n))
            sites.append(("s%d" % s, n, alts, rng.choice(["list", "args"])))
        calls = []
        for _ in range(rng.randint(4, 30)):
            sid, n, alts, style = rng.choice(sites)
            calls.append({"site": sid, "key": site_key(sid, alts, style), "alts": alts, "perm": rng.sample(range(n), n), "style": style})
        lines.append({"op": "oneof", "calls": calls})
    # language switches between the calls of one site and of several sites
    for _ in range(300 if ctx.tier == "quick" else 10000):
        k = rng.choice([1, 1, 2])
        sites = []
        for s_ in range(k):
            n = rng.choice([2, 2, 3, 4])
            sites.append(("L%d" % s_, n, "".join(rng.choice("vvvf") for _ in range(n)), rng.choice(["list", "args"])))
        calls = []
        for _ in range(rng.randint(6, 24)):
            sid, n, alts, style = rng.choice(sites)
            c = {"site": sid, "key": site_key(sid, alts, style), "alts": alts, "perm": rng.sample(range(n), n), "style": style}
            if rng.random() < 0.5:
                c["load"] = rng.choice(["en", "fr"])
            calls.append(c)
        lines.append({"op": "oneof", "calls": calls})
    # alternatives that are themselves lists, given as separate arguments (the first one a list) or inside the list
    for n in (2, 3):
        for pat in set("".join(p) for p in itertools.product("vfl", repeat=n)):
            if "l" not in pat:
                continue
            for style in ("args", "list"):
                perms = list(itertools.permutations(range(n)))
                for combo in (itertools.product(perms, repeat=3) if n == 2 else [[rng.choice(perms) for _ in range(4)] for _ in range(12)]):
                    lines.append(history_single(n, list(combo), alts=pat, style=style))
    # sites that differ only in object identity / only in values: same length, same callable pattern
    for _ in range(300 if ctx.tier == "quick" else 10000):
        n = rng.choice([2, 2, 3, 4])
        alts = rng.choice(["f" * n, "v" * n, "".join(rng.choice("vf") for _ in range(n))])
        style = rng.choice(["list", "args"])
        k = rng.choice([2, 3])
        calls = []
        for _ in range(rng.randint(2 * n, 6 * n)):
            sid = "t%d" % rng.randrange(k)
            calls.append({"site": sid, "key": site_key(sid, alts, style), "alts": alts, "perm": rng.sample(range(n), n), "style": style})
        lines.append({"op": "oneof", "calls": calls})
    # a site interrupted by MANY other sites (a bounded or evicting memory would lose its history): the site is
    # called once or mid-cycle, then 1 100..2 300 distinct other sites are called, then it goes on for three cycles
    for n, first_calls, others in ((2, 1, 1100), (3, 2, 1500), (4, 1, 2300), (3, 4, 1200)):
        calls = []
        alts = "v" * n
        for _ in range(first_calls):
            calls.append({"site": "X", "key": site_key("X", alts, "list"), "alts": alts, "perm": rng.sample(range(n), n), "style": "list"})
        for j in range(others):
            m = 2 + (j % 3)
            a2 = "v" * m
            calls.append({"site": "o%d" % j, "key": site_key("o%d" % j, a2, "list"), "alts": a2, "perm": rng.sample(range(m), m), "style": "list"})
        for _ in range(3 * n + 1):
            calls.append({"site": "X", "key": site_key("X", alts, "list"), "alts": alts, "perm": rng.sample(range(n), n), "style": "list"})
        lines.append({"op": "oneof", "calls": calls})
    # choice and mix
    for n in range(0, 6):
        for pat in set("".join(p) for p in itertools.product("vf", repeat=n)) | (set("".join(p) for p in itertools.product("vfl", repeat=n) if "l" in p) if 2 <= n <= 3 else set()):
            for r in range(max(n, 1)):
                for style in ("list", "args"):
                    if n == 1 and style == "args":
                        continue
                    lines.append({"op": "choice", "alts": pat, "r": r, "style": style})
    for n in range(0, 5):
        for perm in itertools.permutations(range(n)):
            for pat in (["v" * n, "f" * n] + ["".join(rng.choice("vf") for _ in range(n))] + (["l" + "v" * (n - 1), "v" * (n - 1) + "l", "l" * n] if n >= 2 else [])):
                for style in ("list", "args"):
                    if n == 1 and style == "args":
                        continue  # mix(x) with a single non-list argument is the documented list form
                    lines.append({"op": "mix", "alts": pat, "perm": list(perm), "style": style})
    return lines


# --------------------------------------------------------------------------------------------- oracle

def oracle(ctx, line, ans):
    """the property, stated on what the implementation returned"""
    op = line["op"]
    if op == "oneof":
        per_site = {}
        for c, r in zip(line["calls"], ans["res"]):
            n = len(c["alts"])
            if r == "err":
                ctx.fail("oneOf:exception", line, "oneOf raised, or shuffled a list of another length than the alternatives of the call")
                return
            idx, called = r
            if n == 0:
                if idx is not None or called:
                    ctx.fail("oneOf:empty", line, "oneOf() of nothing must return None")
                continue
            if not isinstance(idx, int) or not (0 <= idx < n):
                ctx.fail("oneOf:not-an-alternative", line, "returned %r" % (idx,))
                return
            want = [idx] if c["alts"][idx] == "f" else []
            if called != want:
                ctx.fail("oneOf:callable-calls", line, "called %r, expected %r" % (called, want))
                return
            per_site.setdefault((c["site"], c["style"]), (n, []))[1].append(idx)
        for (site, style), (n, outs) in per_site.items():
            if n < 2:
                continue
            for i in range(len(outs) - 1):
                if outs[i] == outs[i + 1]:
                    ctx.fail("oneOf:back-to-back-repeat", line, "site %s outputs %r repeat at %d" % (site, outs, i))
                    return
            for k in range(len(outs) // n):
                if sorted(outs[k * n:(k + 1) * n]) != list(range(n)):
                    ctx.fail("oneOf:block-not-permutation", line, "site %s outputs %r block %d" % (site, outs, k))
                    return
    elif op == "choice":
        n = len(line["alts"])
        r = ans["res"]
        if r == "err":
            ctx.fail("choice:exception", line, "choice raised")
            return
        idx, called = r
        if n == 0:
            if idx is not None:
                ctx.fail("choice:empty", line, "")
            return
        if not isinstance(idx, int) or not (0 <= idx < n):
            ctx.fail("choice:not-an-argument", line, "returned %r" % (idx,))
            return
        want = [idx] if line["alts"][idx] == "f" else []
        if called != want:
            ctx.fail("choice:callable-calls", line, "called %r expected %r" % (called, want))
    elif op == "mix":
        n = len(line["alts"])
        if ans["order"] == "err":
            ctx.fail("mix:exception", line, "mix raised")
            return
        if sorted(x if isinstance(x, int) else -1 for x in ans["order"]) != list(range(n)):
            ctx.fail("mix:not-a-permutation", line, "order %r" % (ans["order"],))
            return
        if not ans.get("caller_list_unchanged", True):
            ctx.fail("mix:caller-list-modified", line, "")
            return
        if sorted(ans["called"]) != [i for i in range(n) if line["alts"][i] == "f"]:
            ctx.fail("mix:callable-calls", line, "called %r" % (ans["called"],))


def model_post(line, m):
    if line["op"] == "mix":
        return m
    return m


def impl_fn_factory():
    U, sc = setup()

    def f(line):
        if line["op"] == "oneof":
            return impl_oneof(line, U, sc)
        if line["op"] == "choice":
            return impl_choice(line, U, sc)
        return impl_mix(line, U, sc)
    return f


def strip(line):
    """what goes to the model: the model does not see site/style, only the key"""
    if line["op"] == "oneof":
        return {"op": "oneof", "calls": [{"key": c["key"], "alts": c["alts"], "perm": c["perm"]} for c in line["calls"]]}
    return {k: v for k, v in line.items() if k != "style"}


def run(ctx, deep=False):
    impl = impl_fn_factory()
    lines = gen_lines(ctx, deep)
    ctx.exhaustive = True
    ctx.notes["exhaustive_scope"] = "all sequences of 4 shuffle outcomes, n<=%d, 3n+1 calls" % (4 if (ctx.tier == "thorough" or deep) else 3)
    model = core.run_driver([strip(l) for l in lines], ctx.driver)
    dist = {}
    for l, m in zip(lines, model):
        if "driver_error" in m:
            raise core.Infra("driver error: %s on %s" % (m["driver_error"], core.canon(l)[:200]))
        a = impl(l)
        ctx.cov["traces_validated_against_impl"] += 1
        n = len(l["alts"]) if l["op"] != "oneof" else max([len(c["alts"]) for c in l["calls"]] + [0])
        ctx.count(l, a, trivial=(n < 2))
        dist[(l["op"], n)] = dist.get((l["op"], n), 0) + 1
        a_cmp = dict(a)
        a_cmp.pop("caller_list_unchanged", None)
        if core.canon(m) != core.canon(a_cmp):
            ctx.diff(l, m, a_cmp)
        oracle(ctx, l, a)
    ctx.notes["distribution(op,n)"] = {"%s,n=%d" % k: v for k, v in sorted(dist.items())}


def search(ctx):
    """deeper search on the implementation when a proof or the correspondence broke"""
    ctx.tier_saved = ctx.tier
    run(ctx, deep=True)


def replay(path):
    import json
    d = json.load(open(path))
    impl = impl_fn_factory()
    line = d["input"]["input"] if "input" in d.get("input", {}) else d["input"]
    print(json.dumps(impl(line)))
    return 0
