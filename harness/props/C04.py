"""C04 — English clause transformations (and, in the same sweep, the English half of C08).

Model: lean/Pyrealb/Model/ClauseEn.lean (+ ClauseEnSurf.lean); theorems: Props/C04.lean, Props/C08En.lean.
Correspondence: op `clause` — every specification is rendered into BOTH notations by the framework's own trivial
mapping (harness/impl/clausegen.py), realized by the real library and by the model driver; tokens, text, warning
count and exception class must be equal.  Direct oracle: the text of C04 evaluated on the tokens the library
produced (verb-group order, finiteness and agreement, do-support iff, position of `not`, fronting, dropped
constituent, by-phrase, contraction table), and for C08 phrase text == dependency text.
"""
import json

from harness import core
from harness.impl import clausegen

META = {
    "ops": "clause",
    "driver": "drv_clause",
    "translators": ["clauseen"],
    "technique": "Lean 4 proof by case analysis over the finite flag space with symbolic lexical items (all verbs by lemma "
                 "class) + decide over the lifted contraction table; correspondence over the full flag product",
    "level_text": "Kernel-checked theorems about the model of affixHopping / passivate / processInt / tag_question / doElision "
                  "for every verb class, tense, flag combination and both notations: verb-group order, only the first element "
                  "finite, do-support iff, position of not, fronting, dropped constituent, passive swap, agreement with the "
                  "passive subject, contraction = the lifted table. Clauses the unchanged code violates are _refuted with a "
                  "witness + _partial with the exact side condition. Tie: translator (rules-en.json, AST constants) + "
                  "correspondence model/library on the full flag product x 14 verbs x 6 subjects x 2 notations (thorough) "
                  "or 30k seeded samples (quick), plus a model-independent oracle on the library's tokens.",
    "level_note": "Trusted: Lean kernel; the hand-written model is tied to the code only by the correspondence run; the "
                  "fragment is S(subj, VP(V, obj?, PP*)) / root(V, subj, comp*) with pronoun or determiner+noun arguments, "
                  "determiner `a` excluded (a/an is C06), verbs = lexicon verbs written [a-z]+, no adverbs, no coordination.",
    "rule": "clause specification (subject pronoun|NP, verb, tense p/ps/f/c, optional object NP|pronoun, 0-2 PP) x typ flags "
            "(neg pas perf prog contr exc, 6 mod, 14 int) rendered into phrase and dependency notation; non-trivial = at "
            "least one flag set and a new (input, output) pair",
    "assumptions": ["every non-ASCII character occurring in a token is a letter (\\w); no HTML tag in a token",
                    "Python dict insertion order for keyVals in Terminal.bestMatch (pe first)"],
    "trusted": ["harness/impl/clausegen.py: rendering of a specification into S(...) and root(...), own table lookup of noun/verb forms"],
}


def run(ctx):
    clausegen.sweep(ctx, want=("C04", "C08"), label="clause")


def search(ctx):
    """deeper failing-input search on the implementation when a proof or the correspondence broke"""
    ctx.deep = True
    clausegen.sweep(ctx, want=("C04", "C08"), label="search")


def replay(path):
    d = json.load(open(path))
    inp = d.get("input", {})
    inp = inp.get("input", inp)
    spec, typ = inp["spec"], inp["typ"]
    core.ensure_repo_on_path()
    for nota in ("phrase", "dep"):
        ans, raw = clausegen.impl_eval(spec, typ, nota)
        print(nota, json.dumps(ans, ensure_ascii=False))
        print("   C04 clauses violated:", clausegen.oracle_c04(spec, typ, nota, ans, raw))
    return 0
