"""C01 — conjugation follows the tables.  Model: lean/Pyrealb/Model/Conj*.lean ; theorems: Props/C01.lean.

Correspondence: every form `V(lemma).t(t).pe(pe).n(n)[.g(g)][.aux(a)].realize()` of the selected verbs is computed
by the real pyrealb (in-process, warnings counted, exceptions are outputs) and by the compiled model driver
(`drv_conj`, op `sweep`: one line per verb, all forms in a fixed order) and the two are diffed.  Thorough tier: the
complete space (every verb of both lexicons x 21 tenses x 3 persons x 2 numbers, French also x 2 genders x the
four values of the `.aux()` option), 16 worker processes.  Quick tier: every (table, aux, pat, h) class once, plus a
seeded sample of the other verbs.

Variant strata (sampled in both tiers, wider in thorough): the same forms with the person in its string spelling,
with the other language current (explicit `lang` argument / language switched between construction and
realization), and with the tense inherited from an enclosing VP / S / root (pronoun subject), realized three times:
each must give the form predicted for the plain verb.

Direct oracle (`spec_en`, `spec_fr` below): the declarative tense table of the property — periphrase skeleton +
which cell of which row, a cell rendered stem + ending, a missing row / null cell rendered `[[lemma]]` with exactly
one warning — recomputed in Python straight from rules-*.json, independently of the Lean model, and compared with
what the implementation returned.  Every disagreement is a failure with a narrow signature
(language | tense | shape class of the rows involved | kind: exception site or wanted/got skeleton).

Reading choices (not flagged): base form of `s f c b-to ip` (English) is the lemma; a defective participle inside a
periphrase is bracketed in its slot (`a [[gésir]]`); the agreeing participle of a verb whose lexicon entry says
`pat == ["intr"]` and whose effective auxiliary is avoir is a non-existent form (the code's documented
restriction); inside a periphrase the participle is that of the bare verb (lexicon auxiliary)."""
import json
import multiprocessing
import os
import sys
import time
import traceback

from harness import core

META = {
    "ops": "conj,sweep,tables",
    "driver": "drv_conj",
    "translators": ["conj"],
    "technique": "Lean 4 proof (model = declarative tense table for all tables and lemmas; decide +kernel over the "
                 "generated tables) + complete enumeration of the finite form space as correspondence",
    "level_text": "Kernel-checked: for every conjugation table and lemma satisfying the decidable WF predicate, the model of "
                  "TerminalEn/TerminalFr.conjugate + setLemma + morphoError equals the declarative specification "
                  "(tense -> periphrase skeleton + table cell), defective cells give the bracketed lemma and exactly one "
                  "warning, no crash; WF is proved of every table in use by decide +kernel over tables regenerated from "
                  "/repo on every run. Tie: the compiled model is compared with the real pyrealb on every form of every "
                  "lexicon verb (thorough: the complete finite space), and an independent Python oracle recomputes the "
                  "specification from rules-*.json for each of those forms.",
    "level_note": "Trusted: Lean kernel; translator; correspondence (differential, complete in the thorough tier). The "
                  "reflexive/tonic pronoun paradigm and doFormat/detokenize for a lone verb are modelled, not verified; "
                  "options n='x', g='x'/'n', string persons, a verb inside a phrase (cod agreement, typ refl, majestic) "
                  "are outside this property's model (C03/C05).",
    "rule": "one evaluation = one (verb, tense, person, number[, gender, aux option]) form realized by the real library, "
            "by the model driver and by the Python oracle; non-trivial = the realized text differs from the lemma; "
            "distinct = distinct (verb, text) pairs",
    "assumptions": ["A_pro: Pro('moi').c('refl')/.tn('') realize as me/te/se/nous/vous/se and toi/nous/vous (C02)",
                    "Python \\w is approximated exactly on ASCII + Latin-1/Extended-A/B (alphabet check on every run)"],
    "trusted": ["Constituent.warn wrapped from outside to count warnings (the original is still called, stderr discarded)"],
}

TENSES = ["p", "i", "f", "ps", "c", "s", "si", "ip", "pr", "pp", "b", "b-to",
          "pc", "pq", "cp", "pa", "fa", "spa", "spq", "bp", "bp-to"]
PES = [1, 2, 3]
NS = ["s", "p"]
GS = ["m", "f"]
AUXS = [None, "av", "êt", "aê"]


# ---------------------------------------------------------------------------------------------------- data

class Data:
    def __init__(self, repo=None):
        d = os.path.join(repo or core.REPO, "src", "pyrealb", "data")
        self.rules = {}
        self.lex = {}
        self.verbs = {}
        for lang in ("en", "fr"):
            self.rules[lang] = json.load(open(os.path.join(d, "rules-%s.json" % lang), encoding="utf-8"))["conjugation"]
            self.lex[lang] = json.load(open(os.path.join(d, "lexicon-%s.json" % lang), encoding="utf-8"))
            self.verbs[lang] = [l for l, e in self.lex[lang].items() if isinstance(e, dict) and "V" in e]

    def entry(self, lang, lemma):
        e = self.lex[lang].get(lemma)
        if not isinstance(e, dict) or "V" not in e:
            return None
        v = e["V"]
        r = {"tab": v.get("tab")}
        for k in ("aux", "pat", "h"):
            if k in v:
                r[k] = v[k]
        return r


# ---------------------------------------------------------------------------------------------------- oracle
# The declarative specification, written from the property text (NOT from the code or the Lean model).

def cell(tb, row, idx):
    """the ending that table `tb` prescribes in `row` for person index `idx`; None = the form does not exist"""
    if tb is None or "t" not in tb or row not in tb["t"]:
        return None
    r = tb["t"][row]
    if r is None:
        return None
    if isinstance(r, str):
        return r
    return r[idx] if idx < len(r) else None


def stem_of(tb, lemma):
    e = tb["ending"]
    return lemma[:len(lemma) - len(e)]


class Spec:
    """words + warnings; `skel` names the slots (for signatures)"""

    def __init__(self):
        self.words = []
        self.skel = []
        self.w = 0

    def lit(self, x):
        self.words.append(x)
        self.skel.append(x)

    def form(self, lemma, tb, row, idx, name=None):
        c = cell(tb, row, idx)
        if c is None:
            self.words.append("[[%s]]" % lemma)
            self.skel.append("[[lemma]]")
            self.w += 1
        else:
            self.words.append(stem_of(tb, lemma) + c)
            self.skel.append("<%s>" % (name or row))

    def defective(self, lemma):
        self.words = ["[[%s]]" % lemma]
        self.skel = ["[[lemma]]"]
        self.w += 1


EN_TENSE = {          # tense -> (words before the verb, verb slot)
    "p": ([], ("cell", "p")), "ps": ([], ("cell", "ps")),
    "pr": ([], ("fixed", "pr")), "pp": ([], ("fixed", "pp")), "b": ([], ("fixed", "b")),
    "s": ([], "lemma"), "si": ([], ("cell", "ps")),
    "f": ([("will", "p")], "lemma"), "c": ([("will", "ps")], "lemma"),
    "b-to": (["to"], "lemma"),
    "bp": ([("have", "b")], ("fixed", "pp")), "bp-to": (["to", ("have", "b")], ("fixed", "pp")),
    "ip": ([], "lemma"),
}


def wf_table(D, lang, entry):
    return entry is not None and isinstance(entry.get("tab"), str) and entry["tab"] in D.rules[lang]


def spec_en(D, lemma, entry, t, pe, n):
    """-> (text, warnings, skeleton) or None when the property does not prescribe (no table / ending not a suffix:
    then only `[[lemma]]`, at least one warning and no exception are required)"""
    rules = D.rules["en"]
    if not wf_table(D, "en", entry) or not lemma.endswith(rules[entry["tab"]]["ending"]):
        return None
    tb = rules[entry["tab"]]
    sp = Spec()
    idx = pe - 1 + (3 if n == "p" else 0)
    if t not in EN_TENSE:                       # not an English tense: no such row in any English table
        sp.defective(lemma)
        return sp
    pre, slot = EN_TENSE[t]
    if t == "ip" and pe == 1 and n == "p":
        pre = ["let's"]
    for a in pre:
        if isinstance(a, str):
            sp.lit(a)
        else:
            alemma, atense = a
            ae = D.entry("en", alemma)
            sp.form(alemma, rules[ae["tab"]], atense, 2, name=alemma + "." + atense)   # third person singular
    if slot == "lemma":
        sp.lit(lemma)
        sp.skel[-1] = "<lemma>"
    elif t == "si" and lemma == "be":
        sp.lit("were")
    else:
        sp.form(lemma, tb, slot[1], idx)
    if sp.w and len(sp.words) == 1:
        sp.skel = ["[[lemma]]"]
    return sp


FR_FINITE = ["p", "i", "f", "ps", "c", "s", "si"]
FR_COMPOUND = {"pc": "p", "pq": "i", "cp": "c", "pa": "ps", "fa": "f", "spa": "s", "spq": "si", "bp": "b"}
REFL = {(1, "s"): "me", (2, "s"): "te", (3, "s"): "se", (1, "p"): "nous", (2, "p"): "vous", (3, "p"): "se"}
TONIC_IP = {(2, "s"): "toi", (1, "p"): "nous", (2, "p"): "vous"}
VOWELS = "aeiouyàâéèêëîïôöùü"


def elide(pro, word, h_aspire):
    c = word[:1].lower()
    if pro in ("me", "te", "se") and (c in VOWELS or (c == "h" and not h_aspire)):
        return pro[:-1] + "'" + word
    return pro + " " + word


def fr_simple(D, lemma, entry, tb, t, pe, n, g, aux_eff, refl):
    """one French verb in a simple tense -> Spec (a single word, possibly with its reflexive pronoun)"""
    sp = Spec()
    idx = pe - 1 + (3 if n == "p" else 0)
    h = entry.get("h") == 1
    if t in FR_FINITE or t in ("b", "pr"):
        sp.form(lemma, tb, t, idx)
        if refl and not sp.w:
            sp.words = elide(REFL[(pe, n)], sp.words[0], h).split(" ")
            sp.skel = ["<refl>", sp.skel[0]] if len(sp.words) == 2 else ["<refl>'" + sp.skel[0]]
    elif t == "ip":
        if (pe, n) not in TONIC_IP:                          # the imperative has 2s, 1p, 2p only
            sp.defective(lemma)
        else:
            sp.form(lemma, tb, t, idx)
            if refl and not sp.w:
                sp.words = [sp.words[0] + "-" + TONIC_IP[(pe, n)]]
                sp.skel = [sp.skel[0] + "-<tonic>"]
    elif t == "pp":
        i4 = (0 if n == "s" else 2) + (1 if g == "f" else 0)
        if i4 > 0 and entry.get("pat") == ["intr"] and aux_eff == "av":
            sp.defective(lemma)                              # invariable participle: agreeing forms do not exist
        else:
            sp.form(lemma, tb, "pp", i4)
    else:
        sp.defective(lemma)                                  # b-to, bp-to: not French tenses
    return sp


def spec_fr(D, lemma, entry, t, pe, n, g, aux_opt):
    rules = D.rules["fr"]
    if not wf_table(D, "fr", entry) or not lemma.endswith(rules[entry["tab"]]["ending"]):
        return None
    tb = rules[entry["tab"]]
    refl = entry.get("pat") == ["réfl"]
    aux_lex = entry.get("aux", "av")
    aux_eff = aux_opt if aux_opt is not None else aux_lex
    if t not in FR_COMPOUND:
        return fr_simple(D, lemma, entry, tb, t, pe, n, g, aux_eff, refl)
    ta = FR_COMPOUND[t]
    idx = pe - 1 + (3 if n == "p" else 0)
    sp = Spec()
    if isinstance(tb["t"].get(ta), list) and cell(tb, ta, idx) is None:
        sp.defective(lemma)                                  # a verb defective in the auxiliary's tense stays defective
        return sp
    etre = refl or aux_eff == "êt"
    alemma = "être" if etre else "avoir"
    ae = D.entry("fr", alemma)
    a = fr_simple(D, alemma, ae, rules[ae["tab"]], ta, pe, n, g, ae.get("aux", "av"), refl)
    gp, np_ = (g, n) if etre else ("m", "s")
    p = fr_simple(D, lemma, entry, tb, "pp", 3, np_, gp, aux_lex, False)
    sp.words = a.words + p.words
    sp.skel = [k.replace("<" + ta + ">", "<%s.%s>" % (alemma, ta)) for k in a.skel] + p.skel
    sp.w = a.w + p.w
    return sp


def row_shape(tb, row):
    if tb is None:
        return "no-table"
    if "t" not in tb or row not in tb["t"]:
        return "absent"
    r = tb["t"][row]
    if r is None:
        return "null"
    if isinstance(r, str):
        return "str"
    return "list%d%s" % (len(r), "+null" if any(c is None for c in r) else "")


def rows_of(lang, t):
    if lang == "en":
        return {"si": ["ps"], "bp": ["pp"], "bp-to": ["pp"]}.get(t, [t] if t in ("p", "ps", "b", "pp", "pr") else [])
    if t in FR_COMPOUND:
        return [FR_COMPOUND[t], "pp"]
    return [t] if t in FR_FINITE + ["ip", "pp", "pr", "b"] else []


def tab_class(D, lang, entry, t):
    if entry is None:
        return "not-in-lexicon"
    tb = D.rules[lang].get(entry.get("tab"))
    if tb is None:
        return "table-missing"
    return ",".join("%s=%s" % (r, row_shape(tb, r)) for r in rows_of(lang, t)) or "-"


def abstract(text, lemma, sp=None):
    """the implementation's text with lexical material replaced by slot names, word by word against the expected words"""
    got = text.split(" ")
    if sp is None or len(got) != len(sp.words):
        if text == lemma:
            return "<lemma>"
        if text == "[[%s]]" % lemma:
            return "[[lemma]]"
        return "<other:%d words>" % len(got)
    out = []
    for g_, w_, k_ in zip(got, sp.words, sp.skel):
        out.append(k_ if g_ == w_ else "<lemma>" if g_ == lemma else "[[lemma]]" if g_ == "[[%s]]" % lemma else "<other>")
    return " ".join(out)


def judge(D, lang, lemma, entry, t, pe, n, g, aux, got):
    """compares what the implementation returned (`got`: text, text\\tW or !Exc@site) with the specification;
    returns None or (signature, detail)"""
    sp = spec_en(D, lemma, entry, t, pe, n) if lang == "en" else spec_fr(D, lemma, entry, t, pe, n, g, aux)
    cls = tab_class(D, lang, entry, t)
    head = "C01|%s|V|t=%s|%s" % (lang, t, cls)
    if cls in ("table-missing", "not-in-lexicon"):
        head = "C01|%s|V|%s|%s" % (lang, cls, "compound" if (lang == "fr" and t in FR_COMPOUND) else "simple")
    elif lang == "fr" and (t in FR_COMPOUND or t == "pp"):
        flags = []
        if entry.get("pat") == ["réfl"]:
            flags.append("refl")
        if entry.get("pat") == ["intr"]:
            flags.append("intr")
        head += "|aux=%s%s%s" % (entry.get("aux", "-"), "" if aux is None else ">" + aux, "".join("," + f for f in flags))
    if got.startswith("!"):
        return head + "|exception=" + got[1:], "raised %s; expected %s" % (got[1:], describe(sp, lemma))
    text, _, w = got.partition("\t")
    w = int(w) if w else 0
    if sp is None:
        # no usable table: the bracketed lemma, at least one warning
        if text != "[[%s]]" % lemma or w < 1:
            return head + "|want=[[lemma]]+warning|got=%s,w=%d" % (abstract(text, lemma), min(w, 3)), \
                "expected [[%s]] with a warning, got %r with %d" % (lemma, text, w)
        return None
    want = " ".join(sp.words)
    if text != want or w != sp.w:
        kind = "|want=%s,w=%d|got=%s,w=%d" % (" ".join(sp.skel), sp.w, abstract(text, lemma, sp), min(w, 3))
        if text == want:
            kind = "|warnings:want=%d,got=%d|%s" % (sp.w, min(w, 3), " ".join(sp.skel))
        return head + kind, "expected %r with %d warning(s), got %r with %d" % (want, sp.w, text, w)
    return None


def describe(sp, lemma):
    if sp is None:
        return "[[%s]] with a warning" % lemma
    return "%r with %d warning(s)" % (" ".join(sp.words), sp.w)


# ---------------------------------------------------------------------------------------------------- implementation

_IMPL = []


def get_impl():
    if not _IMPL:
        _IMPL.append(Impl())
    return _IMPL[0]


class Impl:
    """runs the real pyrealb in-process (one instance per process: use get_impl())"""

    def __init__(self):
        core.ensure_repo_on_path()
        import pyrealb
        from pyrealb.Constituent import Constituent
        self.p = pyrealb
        self.nwarn = 0
        self.depth = 0
        if True:
            orig = Constituent.warn
            impl = self

            class Null:
                def write(self, x):
                    return len(x)

                def flush(self):
                    pass

            null = Null()

            def warn(cself, *args):
                if impl.depth == 0:
                    impl.nwarn += 1
                impl.depth += 1
                saved = sys.stderr
                sys.stderr = null
                try:
                    return orig(cself, *args)       # the warning is still realized by the library (text discarded)
                finally:
                    sys.stderr = saved
                    impl.depth -= 1

            Constituent.warn = warn

    def form(self, lang, lemma, t, pe, n, g, aux, site=False):
        p = self.p
        (p.loadEn if lang == "en" else p.loadFr)()
        self.nwarn = 0
        self.depth = 0
        try:
            v = p.V(lemma).t(t).pe(pe).n(n)
            if lang == "fr":
                v = v.g(g)
                if aux is not None:
                    v = v.aux(aux)
            r = v.realize()
        except Exception as e:  # noqa: an exception is an output
            if site:
                return "!" + type(e).__name__ + "@" + crash_site(e)
            return "!" + type(e).__name__
        if not isinstance(r, str):
            return "!NotAString"
        return r if self.nwarn == 0 else "%s\t%d" % (r, self.nwarn)


def crash_site(e):
    """file:function:source line of the innermost pyrealb frame (no line numbers: Appendix B)"""
    tb = traceback.extract_tb(e.__traceback__)
    for fr in reversed(tb):
        if "pyrealb" in fr.filename and "harness" not in fr.filename:
            return "%s:%s:%s" % (os.path.basename(fr.filename), fr.name, (fr.line or "").strip())
    return "?"


# ---------------------------------------------------------------------------------------------------- sweep

def sweep_line(D, lang, lemma, auxs=None):
    return {"op": "sweep", "lang": lang, "lemma": lemma, "entry": D.entry(lang, lemma), "ts": TENSES, "pes": PES,
            "ns": NS, "gs": GS if lang == "fr" else ["m"], "auxs": (auxs or AUXS) if lang == "fr" else [None]}


def forms_of(line):
    for t in line["ts"]:
        for pe in line["pes"]:
            for n in line["ns"]:
                for g in line["gs"]:
                    for a in line["auxs"]:
                        yield t, pe, n, g, a


_W = {}


def work(args):
    """one chunk of verbs: model (driver subprocess), implementation, oracle"""
    chunk, exe = args
    D = _W["D"]
    impl = get_impl()
    lines = [sweep_line(D, *v) for v in chunk]
    t0 = time.time()
    answers = core.run_driver(lines, exe)
    t_model = time.time() - t0
    res = {"n": 0, "nontrivial": 0, "fails": {}, "diffs": [], "ndiffs": 0, "wf_bad": [], "dist": {}, "samples": [],
           "t_model": t_model, "driver_errors": []}
    for line, ans in zip(lines, answers):
        lang, lemma, entry = line["lang"], line["lemma"], line["entry"]
        if "driver_error" in ans:
            res["driver_errors"].append([lemma, ans["driver_error"]])
            continue
        if not ans["wf"]:
            res["wf_bad"].append([lang, lemma, entry.get("tab") if entry else None, ans["why"]])
        mforms = ans["forms"].split("\n")
        texts = set()
        k = 0
        for t, pe, n, g, a in forms_of(line):
            got = impl.form(lang, lemma, t, pe, n, g, a)
            m = mforms[k]
            k += 1
            res["n"] += 1
            text = got.split("\t")[0]
            if text != lemma:
                texts.add(text)
            kind = "exception" if got.startswith("!") else ("bracket" if got.startswith("[[") else
                                                             ("warned" if "\t" in got else "form"))
            key = "%s,%s,%s" % (lang, t, kind)
            res["dist"][key] = res["dist"].get(key, 0) + 1
            inp = None
            if got != m:
                res["ndiffs"] += 1
                if len(res["diffs"]) < 20:
                    inp = form_input(lang, lemma, entry, t, pe, n, g, a)
                    res["diffs"].append([inp, m, got])
            j = judge(D, lang, lemma, entry, t, pe, n, g, a, got)
            if j is not None:
                sig, detail = j
                if got.startswith("!"):        # recompute once with the crash site for the signature
                    got2 = impl.form(lang, lemma, t, pe, n, g, a, site=True)
                    sig = sig.replace("|exception=" + got[1:], "|exception=" + got2[1:])
                f = res["fails"].get(sig)
                if f is None:
                    res["fails"][sig] = [form_input(lang, lemma, entry, t, pe, n, g, a), detail, 1]
                else:
                    f[2] += 1
            if len(res["samples"]) < 2 and res["n"] % 997 == 1:
                res["samples"].append([form_input(lang, lemma, entry, t, pe, n, g, a), got])
        res["nontrivial"] += len(texts)
    return res


# ---------------------------------------------------------------------------------------------------- variant strata
# The same (verb, tense, person, number, gender, aux) forms reached another way; the expected form is the one the
# model and the specification give for the plain `V(lemma).t(t).pe(pe).n(n)...` of the verb's own language.
#   strpe          person given in its string spelling: .pe("2")                       (conjugate uses int(pe))
#   lang-explicit  V(lemma, lang) built and realized while the OTHER language is current
#   lang-switch    V(lemma) built under the verb's language, realized after loading the other one
#   vp, vp-t       VP(V(lemma)) with the options on the VP / only the tense on the VP — realized three times
#   s, root        S(Pro, VP(V)).t(t) and root(V, subj(Pro)).t(t), pronoun subject — realized three times
# vp/s/root inherit the tense from the enclosing phrase; they are restricted to verbs that are not essentially
# reflexive, tenses other than the imperative, and forms that exist and are not empty (no warning), so that agreement and pronoun
# placement stay trivially known.

VARIANTS = ["strpe", "lang-explicit", "lang-switch", "vp", "vp-t", "s", "root"]
PHRASE_VARIANTS = ("vp", "vp-t", "s", "root")
SUBJ = {"fr": {(1, "s"): "je", (2, "s"): "tu", (3, "s", "m"): "il", (3, "s", "f"): "elle", (1, "p"): "nous", (2, "p"): "vous",
               (3, "p", "m"): "ils", (3, "p", "f"): "elles"},
        "en": {(1, "s"): "I", (2, "s"): "you", (3, "s", "m"): "he", (3, "s", "f"): "she", (1, "p"): "we", (2, "p"): "you",
               (3, "p", "m"): "they", (3, "p", "f"): "they"}}


def sentence(lang, entry, pe, n, g, text):
    """pronoun subject + verb group, as a top-level sentence: elision of `je`, capital, full stop"""
    subj = SUBJ[lang].get((pe, n)) or SUBJ[lang][(pe, n, g)]
    if lang == "fr" and subj == "je":
        c = text[:1].lower()
        if c in VOWELS or (c == "h" and not (entry.get("h") == 1)):
            subj = "j'"
    s_ = subj + ("" if subj.endswith("'") else " ") + text
    return s_[:1].upper() + s_[1:] + ". "


def expected_variant(line, text):
    """what the variant must give when the plain form is `text` (no warning)"""
    if line["variant"] in ("s", "root"):
        return sentence(line["lang"], line["entry"], line["pe"], line["n"], line["g"], text)
    return text


def run_variant(impl, line, site=False):
    """-> list of outputs (one per realization), each `text`, `text\tW` or `!Exc[@site]`"""
    p = impl.p
    lang, lemma, t, pe, n, g, aux, var = (line[k] for k in ("lang", "lemma", "t", "pe", "n", "g", "aux", "variant"))
    load = p.loadFr if lang == "fr" else p.loadEn
    other = p.loadEn if lang == "fr" else p.loadFr

    def opts(c, with_t=True, person=pe):
        if with_t:
            c = c.t(t)
        c = c.pe(person).n(n)
        if lang == "fr":
            c = c.g(g)
        return c

    def verb(langarg=None):
        v = p.V(lemma, langarg) if langarg else p.V(lemma)
        if lang == "fr" and aux is not None:
            v = v.aux(aux)
        return v

    def pro():
        return p.Pro("je" if lang == "fr" else "I").pe(pe).n(n).g(g)

    outs = []
    impl.nwarn = 0
    impl.depth = 0
    try:
        if var == "strpe":
            load()
            e, times = opts(verb(), person=str(pe)), 1
        elif var == "lang-explicit":
            other()
            e, times = opts(verb(lang)), 1
        elif var == "lang-switch":
            load()
            e, times = opts(verb()), 1
            other()
        elif var == "vp":
            load()
            e, times = opts(p.VP(verb())), 3
        elif var == "vp-t":
            load()
            e, times = p.VP(opts(verb(), with_t=False)).t(t), 3
        elif var == "s":
            load()
            e, times = p.S(pro(), p.VP(verb())).t(t), 3
        else:
            load()
            e, times = p.root(verb(), p.subj(pro())).t(t), 3
        for _ in range(times):
            w0 = impl.nwarn
            r = e.realize()
            w = impl.nwarn - w0 + (w0 if not outs else 0)      # construction warnings count with the first realization
            outs.append(r if w == 0 else "%s\t%d" % (r, w))
    except Exception as ex:  # noqa: an exception is an output
        outs.append("!" + type(ex).__name__ + ("@" + crash_site(ex) if site else ""))
    finally:
        load()
    return outs


def judge_variant(D, line, outs, outs_site=None):
    """None, or (signature, detail): the variant must give, at every realization, the form of the plain verb"""
    lang, lemma, entry, t, pe, n, g, aux, var = (line[k] for k in ("lang", "lemma", "entry", "t", "pe", "n", "g", "aux", "variant"))
    sp = spec_en(D, lemma, entry, t, pe, n) if lang == "en" else spec_fr(D, lemma, entry, t, pe, n, g, aux)
    head = "C01|%s|V|variant=%s|t=%s|%s" % (lang, var, t, tab_class(D, lang, entry, t))
    if lang == "fr" and (t in FR_COMPOUND or t == "pp"):
        head += "|aux=%s%s" % (entry.get("aux", "-"), "" if aux is None else ">" + aux)
    if sp is None:
        want = "[[%s]]" % lemma
        wants = None
    else:
        want = expected_variant(line, " ".join(sp.words))
        wants = want if sp.w == 0 else "%s\t%d" % (want, sp.w)
    for k, o in enumerate(outs, 1):
        if o.startswith("!"):
            site = (outs_site or outs)[min(k, len(outs_site or outs)) - 1]
            return head + "|realization#%d|exception=%s" % (k, site[1:]), "realization #%d raised %s; expected %r" % (k, o[1:], want)
        if wants is None:
            text, _, w = o.partition("\t")
            if text != want or not w:
                return head + "|realization#%d|want=[[lemma]]+warning|got=%s" % (k, abstract(text, lemma)), \
                    "realization #%d gave %r; expected %r with a warning" % (k, o, want)
        elif o != wants and not (k > 1 and sp.w and o.split("\t")[0] == want):
            text = o.split("\t")[0]
            inner = text
            if var in ("s", "root") and text.endswith(". "):        # strip subject and full stop for the abstraction
                inner = text[:-2].split(" ", 1)[-1] if " " in text[:-2] and not text.lower().startswith("j'") else text[2:-2]
            return head + "|realization#%d|want=%s,w=%d|got=%s" % (k, " ".join(sp.skel), sp.w, abstract(inner, lemma, sp)), \
                "realization #%d gave %r; expected %r" % (k, o, wants)
    return None


def variant_lines(ctx, D, pairs):
    """seeded sample: per verb and variant, one periphrastic/compound tense, one simple finite tense, random others"""
    rng = ctx.rng
    nverbs, extra = (450, 1) if ctx.tier == "quick" else (4000, 4)
    sample = pairs if len(pairs) <= nverbs else rng.sample(pairs, nverbs)
    lines = []
    for lang, lemma in sample:
        entry = D.entry(lang, lemma)
        if entry is None:
            continue
        peri = list(FR_COMPOUND) if lang == "fr" else ["f", "c", "bp", "bp-to"]
        fin = FR_FINITE if lang == "fr" else ["p", "ps", "s", "si"]
        for var in VARIANTS:
            if var in PHRASE_VARIANTS and entry.get("pat") == ["réfl"]:
                continue
            tenses = [rng.choice(peri), rng.choice(fin)] + [rng.choice(TENSES) for _ in range(extra)]
            for t in tenses:
                pe, n, g = rng.choice(PES), rng.choice(NS), rng.choice(GS)
                aux = rng.choice(AUXS) if (lang == "fr" and rng.random() < 0.3) else None
                if var in PHRASE_VARIANTS:
                    if t == "ip":
                        continue
                    sp = spec_en(D, lemma, entry, t, pe, n) if lang == "en" else spec_fr(D, lemma, entry, t, pe, n, g, aux)
                    if sp is None or sp.w or any(w_ == "" for w_ in sp.words):
                        continue        # empty forms (`ought`.b: the cell is "") are dropped by detokenisation: left out
                l = form_input(lang, lemma, entry, t, pe, n, g, aux)
                l["variant"] = var
                lines.append(l)
    return lines


def work_variants(args):
    items = args
    D = _W["D"]
    impl = get_impl()
    res = {"n": 0, "fails": {}, "diffs": [], "ndiffs": 0, "dist": {}}
    for line, m in items:
        outs = run_variant(impl, line)
        res["n"] += 1
        key = "%s,%s" % (line["lang"], line["variant"])
        res["dist"][key] = res["dist"].get(key, 0) + 1
        # model: the plain form, carried through the same (trivial) embedding
        if "err" in m:
            mm = "!" + m["err"]
        else:
            mt = expected_variant(line, m["r"])
            mm = mt if m["w"] == 0 else "%s\t%d" % (mt, m["w"])
        bad_model = any((o.split("@")[0] if o.startswith("!") else o) != mm and not (k > 0 and o.split("\t")[0] == mm.split("\t")[0])
                        for k, o in enumerate(outs))
        if bad_model:
            res["ndiffs"] += 1
            if len(res["diffs"]) < 10:
                res["diffs"].append([line, mm, outs])
        j = judge_variant(D, line, outs)
        if j is not None:
            if any(o.startswith("!") for o in outs):
                j = judge_variant(D, line, outs, run_variant(impl, line, site=True)) or j
            sig, detail = j
            f = res["fails"].get(sig)
            if f is None:
                res["fails"][sig] = [line, detail, 1]
            else:
                f[2] += 1
    return res


def form_input(lang, lemma, entry, t, pe, n, g, a):
    return {"op": "conj", "lang": lang, "lemma": lemma, "entry": entry, "t": t, "pe": pe, "n": n, "g": g, "aux": a}


def stratum(D, lang, lemma):
    """class of a verb for the quick tier: table, lexicon aux, pat; for essentially reflexive verbs also what elision
    looks at (h aspiré, vowel/h initial)"""
    e = D.entry(lang, lemma)
    pat = tuple(e["pat"]) if isinstance(e.get("pat"), list) else None
    k = (lang, e.get("tab"), e.get("aux"), pat)
    if pat == ("réfl",):
        k += (e.get("h"), lemma[:1] in "aeiouyhàâéèêëîïôöùü")
    return k


def select(ctx, D):
    """(lang, lemma) pairs of this run"""
    allv = [(lang, l) for lang in ("en", "fr") for l in D.verbs[lang]]
    if ctx.tier == "thorough":
        return allv, "all %d English and %d French lexicon verbs" % (len(D.verbs["en"]), len(D.verbs["fr"]))
    seen = {}
    for lang, l in allv:
        seen.setdefault(stratum(D, lang, l), []).append((lang, l))
    chosen = []
    rest = []
    reps = set()
    for k in sorted(seen, key=repr):
        members = seen[k]
        i = ctx.rng.randrange(len(members))
        chosen.append(members[i])
        reps.add(members[i])
        rest.extend(members[:i] + members[i + 1:])
    panel = [("en", w) for w in ("be", "have", "do", "can", "will", "go", "eat", "try", "stop", "love", "whiz", "born")] + \
            [("fr", w) for w in ("être", "avoir", "aller", "pouvoir", "manger", "finir", "prendre", "enfuir", "tomber", "monter",
                                  "pleuvoir", "falloir", "aimer", "haïr", "habiter", "apparoir", "occire", "gésir")]
    have = set(chosen)
    for pv in panel:
        if pv not in have and D.entry(*pv) is not None:
            chosen.append(pv)
            have.add(pv)
    rest = [r for r in rest if r not in have]
    # seeded sample of the rest, within the quick budget (French verbs have 8x the forms of English ones)
    k_en = int(0.06 * len(D.verbs["en"]))
    k_fr = int(0.012 * len(D.verbs["fr"]))
    en_rest = [r for r in rest if r[0] == "en"]
    fr_rest = [r for r in rest if r[0] == "fr"]
    chosen += ctx.rng.sample(en_rest, min(k_en, len(en_rest))) + ctx.rng.sample(fr_rest, min(k_fr, len(fr_rest)))
    # class representatives: no option + one seeded value of .aux(); panel and sample: all four
    chosen = [(lang, l, [None, ctx.rng.choice(AUXS[1:])]) if ((lang, l) in reps and (lang, l) not in panel) else (lang, l)
              for lang, l in chosen]
    return chosen, "one verb of each of the %d (language, table, aux, pat[, h, initial]) classes (no .aux() + one seeded .aux() value) + fixed panel and seeded sample of the other verbs (all four .aux() values)" % len(seen)


def check_tables(ctx, D):
    """the generated Lean tables, re-serialised by the driver, must be exactly rules-*.json (translator tie)"""
    for lang in ("en", "fr"):
        ans = core.run_driver([{"op": "tables", "lang": lang}], ctx.driver)[0]
        want = [[k, {"keys": list(tb.keys()), "ending": tb["ending"], "rows": [[r, v] for r, v in tb.get("t", {}).items()]}]
                for k, tb in D.rules[lang].items()]
        used = sorted({D.lex[lang][l]["V"]["tab"] for l in D.verbs[lang]})
        if ans.get("tables") != want or ans.get("used") != used:
            ctx.diff({"op": "tables", "lang": lang}, {"digest": core.canon(ans)[:200]}, {"digest": core.canon(want)[:200]})
            ctx.proof_failures.append({"theorem": "translator:Gen/Conj%s" % lang.capitalize(),
                                       "msg": "generated tables differ from rules-%s.json" % lang})


def alphabet_ok(D):
    bad = set()

    def ok(ch):
        o = ord(ch)
        return o < 0x250

    for lang in ("en", "fr"):
        for l in D.verbs[lang]:
            bad.update(ch for ch in l if not ok(ch))
        for tb in D.rules[lang].values():
            for r in tb.get("t", {}).values():
                for c in (r if isinstance(r, list) else [r]):
                    if c:
                        bad.update(ch for ch in c if not ok(ch))
    return sorted(bad)


MALFORMED = [("en", "xyzzy"), ("fr", "xyzzy"), ("en", "table"), ("fr", "table"), ("en", ""), ("fr", "manger "),
             ("en", "Eat"), ("fr", "être"), ("en", "être"), ("fr", "eat")]


def run(ctx, deep=False):
    D = Data()
    _W["D"] = D
    impl = get_impl()
    check_tables(ctx, D)
    bad_alpha = alphabet_ok(D)
    if bad_alpha:
        ctx.proof_failures.append({"theorem": "assumption:alphabet", "msg": "characters outside the modelled \\w range: %r" % bad_alpha})
    if deep:
        ctx.tier_saved = ctx.tier
        ctx.tier = "thorough"
    verbs, scope = select(ctx, D)
    # chunks: interleave so that the (8x more expensive) French verbs are spread over the workers
    verbs = sorted(verbs, key=lambda v: (v[0], v[1]))
    pairs = [(v[0], v[1]) for v in verbs]
    nchunks = max(16, min(256, len(verbs) // 40))
    chunks = [verbs[i::nchunks] for i in range(nchunks)]
    chunks = [c for c in chunks if c]
    t0 = time.time()
    mp = multiprocessing.get_context("fork")
    with mp.Pool(min(16, len(chunks))) as pool:
        results = pool.map(work, [(c, ctx.driver) for c in chunks], chunksize=1)
    wall = time.time() - t0
    n = 0
    fails = {}
    dist = {}
    wf_bad = []
    ndiffs = 0
    nontrivial = 0
    for r in results:
        if r["driver_errors"]:
            raise core.Infra("driver error: %r" % r["driver_errors"][:3])
        n += r["n"]
        nontrivial += r["nontrivial"]
        ndiffs += r["ndiffs"]
        wf_bad += r["wf_bad"]
        for k, v in r["dist"].items():
            dist[k] = dist.get(k, 0) + v
        for inp, m, got in r["diffs"]:
            ctx.diff(inp, {"out": m}, {"out": got})
        for sig, (inp, detail, cnt) in r["fails"].items():
            f = fails.get(sig)
            if f is None:
                fails[sig] = [inp, detail, cnt]
            else:
                f[2] += cnt
                if len(core.canon(inp)) < len(core.canon(f[0])):
                    f[0], f[1] = inp, detail
        for inp, got in r["samples"]:
            if len(ctx.cov["samples"]) < 12:
                ctx.cov["samples"].append({"line": inp, "answer": got})
    ctx.cov["evaluations"] += n
    ctx.cov["traces_validated_against_impl"] += n
    base = len(ctx.distinct)
    ctx.distinct.update(range(base, base + nontrivial))      # one key per distinct (verb, text != lemma) pair
    # malformed stream + single-form op (the replay path), through op `conj`
    lines = []
    for lang, lemma in MALFORMED:
        for t in ("p", "pc", "bp", "ip", "pp"):
            lines.append(form_input(lang, lemma, D.entry(lang, lemma), t, ctx.rng.choice(PES), ctx.rng.choice(NS), ctx.rng.choice(GS), None))
    pool_v = pairs if len(pairs) < 3000 else ctx.rng.sample(pairs, 3000)
    for lang, lemma in pool_v[:3000]:
        lines.append(form_input(lang, lemma, D.entry(lang, lemma), ctx.rng.choice(TENSES), ctx.rng.choice(PES), ctx.rng.choice(NS),
                                ctx.rng.choice(GS), ctx.rng.choice(AUXS) if lang == "fr" else None))
    answers = core.run_driver(lines, ctx.driver)
    for l, m in zip(lines, answers):
        if "driver_error" in m:
            raise core.Infra("driver error on %s: %s" % (core.canon(l)[:300], m["driver_error"]))
        got = impl.form(l["lang"], l["lemma"], l["t"], l["pe"], l["n"], l["g"], l["aux"])
        mm = ("!" + m["err"]) if "err" in m else (m["r"] if m["w"] == 0 else "%s\t%d" % (m["r"], m["w"]))
        ctx.cov["traces_validated_against_impl"] += 1
        ctx.count(l, got, trivial=(got == l["lemma"]))
        if mm != got:
            ndiffs += 1
            ctx.diff(l, {"out": mm}, {"out": got})
        j = judge(D, l["lang"], l["lemma"], l["entry"], l["t"], l["pe"], l["n"], l["g"], l["aux"], got)
        if j is not None:
            sig, detail = j
            if got.startswith("!"):
                got2 = impl.form(l["lang"], l["lemma"], l["t"], l["pe"], l["n"], l["g"], l["aux"], site=True)
                sig = sig.replace("|exception=" + got[1:], "|exception=" + got2[1:])
            if sig not in fails:
                fails[sig] = [l, detail, 1]
            else:
                fails[sig][2] += 1
    # variant strata (string person, other language current, tense inherited from an enclosing phrase + re-realization)
    vlines = variant_lines(ctx, D, pairs)
    vans = core.run_driver([{k: v for k, v in l.items() if k != "variant"} for l in vlines], ctx.driver)
    for l, m in zip(vlines, vans):
        if "driver_error" in m:
            raise core.Infra("driver error on %s: %s" % (core.canon(l)[:300], m["driver_error"]))
    items = list(zip(vlines, vans))
    nch = 64
    with mp.Pool(16) as pool:
        vres = pool.map(work_variants, [items[i::nch] for i in range(nch) if items[i::nch]], chunksize=1)
    vdist = {}
    for r in vres:
        ctx.cov["evaluations"] += r["n"]
        ctx.cov["traces_validated_against_impl"] += r["n"]
        ndiffs += r["ndiffs"]
        for k, v in r["dist"].items():
            vdist[k] = vdist.get(k, 0) + v
        for l, mm, outs in r["diffs"]:
            ctx.diff(l, {"out": mm}, {"out": outs})
        for sig, (inp, detail, cnt) in r["fails"].items():
            if sig not in fails:
                fails[sig] = [inp, detail, cnt]
            else:
                fails[sig][2] += cnt
    ctx.notes["variant_strata(lang,variant)"] = dict(sorted(vdist.items()))
    for l, m in items[:3]:
        if len(ctx.cov["samples"]) < 14:
            ctx.cov["samples"].append({"line": l, "answer": m})
    for sig, (inp, detail, cnt) in sorted(fails.items()):
        ctx.fail(sig, inp, "%s  [%d form(s) of this run share the signature]" % (detail, cnt))
        if hasattr(ctx, "fail_counts"):
            ctx.fail_counts[sig] = cnt
    # WF sweep: entries failing the decidable hypothesis of the theorems must be exactly the ones that fail above
    ctx.notes["wf_sweep"] = {"entries": len(verbs), "not_wf": wf_bad[:50]}
    ctx.notes["forms"] = n
    ctx.notes["sweep_wall_s"] = round(wall, 1)
    ctx.notes["model_vs_impl_diffs"] = ndiffs
    ctx.notes["distribution(lang,tense,outcome)"] = dict(sorted(dist.items()))
    ctx.notes["selection"] = scope
    ctx.notes["failing_signatures"] = {s: f[2] for s, f in sorted(fails.items())}
    if ctx.tier == "thorough":
        ctx.exhaustive = True
        ctx.notes["exhaustive_scope"] = ("every verb of lexicon-en.json (%d) x 21 tenses x 3 persons x 2 numbers; every verb of "
                                         "lexicon-fr.json (%d) x 21 tenses x 3 persons x 2 numbers x 2 genders x aux option in "
                                         "{none,av,êt,aê}: %d forms" % (len(D.verbs["en"]), len(D.verbs["fr"]), n))
    if deep:
        ctx.tier = ctx.tier_saved


def search(ctx):
    """deeper search on the implementation when a proof or the correspondence broke: the complete space"""
    if ctx.tier != "thorough":
        run(ctx, deep=True)


def replay(path):
    d = json.load(open(path, encoding="utf-8"))
    inp = d.get("input", d)
    if "input" in inp and "op" not in inp:
        inp = inp["input"]
    D = Data()
    impl = get_impl()
    if inp.get("variant"):
        outs = run_variant(impl, inp, site=True)
        plain_outs = [o.split("@")[0] if o.startswith("!") else o for o in outs]
        j = judge_variant(D, inp, plain_outs, outs)
        print(json.dumps({"variant": inp["variant"], "form": {k: inp[k] for k in ("lang", "lemma", "t", "pe", "n", "g", "aux")},
                          "realizations": outs, "verdict": "violates C01" if j else "conforms",
                          "signature": j[0] if j else None, "detail": j[1] if j else None}, ensure_ascii=False, indent=1))
        return 1 if j else 0
    got = impl.form(inp["lang"], inp["lemma"], inp["t"], inp["pe"], inp["n"], inp["g"], inp.get("aux"), site=True)
    plain = got.split("@")[0] if got.startswith("!") else got
    j = judge(D, inp["lang"], inp["lemma"], inp.get("entry"), inp["t"], inp["pe"], inp["n"], inp["g"], inp.get("aux"), plain)
    expr = "V(%r).t(%r).pe(%d).n(%r)" % (inp["lemma"], inp["t"], inp["pe"], inp["n"])
    if inp["lang"] == "fr":
        expr += ".g(%r)" % inp["g"] + ("" if inp.get("aux") is None else ".aux(%r)" % inp["aux"])
    print(json.dumps({"expression": "load%s(); %s.realize()" % (inp["lang"].capitalize(), expr), "got": got,
                      "verdict": "violates C01" if j else "conforms", "signature": j[0] if j else None,
                      "detail": j[1] if j else None}, ensure_ascii=False, indent=1))
    return 1 if j else 0
