"""C16 — numbers: words, ordinals, Roman numerals, digit formatting, number agreement.

Model: lean/Pyrealb/Model/Number.lean (Number.py), Model/NumberNO.lean (the NO terminal); specification:
Model/NumberEval.lean; theorems: Props/C16.lean.  Word tables are regenerated from /repo by translate/number.py.

Correspondence: the same protocol lines go through the compiled model (`drv_number`) and through the real
pyrealb API (`NO(n).nat()`, `.dOpt(...)`, `NP(NO(n), N(..))`, `root(N(..), det(NO(n)))`, and the functions of
`pyrealb.Number`).  Direct oracle on what the IMPLEMENTATION returned, independent of the model: a strict
recursive-descent reader of English / French number words written here (words -> integer), injectivity of the
spelling over the whole run, an ordinal table written here, value and canonical shape of Roman numerals, the
digit string read back with the language's signs and compared with `decimal` rounding, and the number of the noun.
"""
import decimal
import hashlib
import io
import json
import multiprocessing
import os
import random
import re
import sys
from decimal import Decimal

from harness import core

META = {
    "ops": "spell,ordinal,roman,no",
    "driver": "drv_number",
    "translators": ["number"],
    "technique": "Lean 4 proof (decide +kernel over the complete generated triplet / scale / Roman tables, lifted to all "
                 "|n| < 10^21 by induction over the list of digit triplets) + differential correspondence + parse-back oracle",
    "level_text": "Kernel-checked: for every |n| < 10^21 the English and the French spelling are read back as n by an independent "
                  "evaluator of the numeral system; distinct numbers have distinct spellings; spelling never raises in the "
                  "domain; the ordinal of every n >= 1 is what an independent table of ordinal forms makes of the cardinal, in "
                  "both languages; Roman numerals canonical for 1..3999 (all checked by the kernel); digit formatting of every "
                  "integer parses back to it and of every exact decimal/double to its half-even rounding; grammatical number "
                  "rule of both languages, ordinals singular.",
    "level_note": "Trusted: Lean kernel; translator (word tables lifted from Number.py by ast); the hand-written model is tied "
                  "to the code by the differential run only; Python's float repr / exact value of a double / str(int) are "
                  "inputs (A_float).",
    "rule": "integers: exhaustive range (quick [-20000,20000], thorough [-10^6,10^6]) and seeded samples up to 10^21 with "
            "every power of ten and its neighbours, both languages, through NO(n).nat() / .dOpt ord / formatter; 0..3999 "
            "Roman (-2..4100 on the function); floats x precision 0..6 (ties, negative zero, inf/nan); NP(NO(v),N(noun)) "
            "and det(NO(v)) over value classes and a sweep of lexicon nouns; lemma strings (valid and malformed). "
            "non-trivial = any line whose value is not 0/1 (a rule of the speller/formatter is exercised)",
    "assumptions": ["A_float: repr(float), the exact decimal expansion of a double and float(str) are Python's; the model "
                    "receives them as data", "A_w: Python re `\\w` on the alphabet of the word tables is recorded by the "
                    "translator as a table"],
    "trusted": ["Constituent.warn wrapped to count warnings; stderr silenced during the run"],
}

LANGS = ("en", "fr")
CRASHES = {"KeyError", "IndexError", "AttributeError", "TypeError", "ValueError"}
TWO53 = 2 ** 53
decimal.getcontext().prec = 2000


# ===================================================================================================================
# values <-> protocol
# ===================================================================================================================

def val_json(x):
    if isinstance(x, int):
        return {"t": "int", "v": str(x)}
    if x != x or x in (float("inf"), float("-inf")):
        return {"t": "special", "repr": repr(x)}
    sign, digits, exp = Decimal(x).as_tuple()
    m = int("".join(map(str, digits)))
    if exp >= 0:
        m, k = m * 10 ** exp, 0
    else:
        k = -exp
    return {"t": "flt", "neg": bool(sign), "m": str(m), "k": k, "repr": repr(x)}


def val_py(j):
    if j["t"] == "int":
        return int(j["v"])
    return float(j["repr"])


SEP = {"en": ",", "fr": " "}


def lemma_str_json(s, lang, P):
    """a string lemma: what the lexicon says (value / is an adjective) and float(cleaned) are external data"""
    lex = None
    info = P["getLemma"](s.replace("œ", "oe").replace("æ", "ae"), lang)
    if info is not None and "value" in info:
        lex = {"value": val_json(info["value"]), "A": "A" in info}
    flo = None
    try:
        flo = val_json(float(s.replace(SEP[lang], "")))
    except (ValueError, OverflowError):
        pass
    return {"t": "str", "s": s, "lex": lex, "flo": flo}


# ===================================================================================================================
# the real pyrealb
# ===================================================================================================================

_P = {}


def pyrealb_api():
    if _P:
        return _P
    core.ensure_repo_on_path()
    import pyrealb
    from pyrealb.Constituent import Constituent as CC
    from pyrealb import Number as Nb
    from pyrealb.Lexicon import getLexicon
    warn_count = [0]
    orig = CC.warn

    def counting_warn(self, *a):
        warn_count[0] += 1
        return orig(self, *a)
    CC.warn = counting_warn
    lex = {"en": getLexicon("en"), "fr": getLexicon("fr")}
    _P.update(p=pyrealb, warn=warn_count, Nb=Nb, lex=lex,
              getLemma=lambda w, lang: lex[lang].get(w),
              load={"en": pyrealb.loadEn, "fr": pyrealb.loadFr})
    return _P


def exc_name(e):
    n = type(e).__name__
    return n if n in CRASHES else "Exception"


class Quiet:
    def __enter__(self):
        self.err, self.out = sys.stderr, sys.stdout
        sys.stderr = io.StringIO()
        sys.stdout = io.StringIO()

    def __exit__(self, *a):
        sys.stderr, sys.stdout = self.err, self.out


_noun_forms = {}


def noun_forms(lang, noun, P):
    k = (lang, noun)
    if k not in _noun_forms:
        p = P["p"]
        try:
            s1 = p.N(noun).realize()
            s2 = p.N(noun).n("p").realize()
        except Exception:  # noqa
            s1 = s2 = None
        _noun_forms[k] = (s1, s2)
    return _noun_forms[k]


def impl(line):
    """runs one protocol line on the real library; canonical answer"""
    P = pyrealb_api()
    p = P["p"]
    op = line["op"]
    with Quiet():
        P["load"][line.get("lang", "en")]()
        P["warn"][0] = 0
        try:
            if op == "spell":
                return {"r": P["Nb"].enToutesLettres(int(line["n"]), line["lang"])}
            if op == "ordinal":
                return {"r": P["Nb"].ordinal(int(line["n"]), line["lang"], line.get("g", "m"))}
            if op == "roman":
                return {"r": P["Nb"].roman(int(line["n"]))}
            lem = line["lemma"]
            noun = line.get("noun")
            if noun is not None:
                sing, plur = noun_forms(line["lang"], noun, P)
                P["warn"][0] = 0
            # cross-language stratum: the constituent's language is line["lang"]; the OTHER language is the current
            # one either from the start (explicit lang= on every constructor) or from just before realization
            cross = line.get("cross")
            other = P["load"]["fr" if line["lang"] == "en" else "en"]
            kw = {}
            if cross == "explicit":
                other()
                kw = {"lang": line["lang"]}
            if lem["t"] == "other":
                no = p.NO(None, **kw)
            elif lem["t"] == "str":
                no = p.NO(lem["s"], **kw)
            else:
                no = p.NO(val_py(lem), **kw)
            for c in line["calls"]:
                if c[0] == "dOpt":
                    no = no.dOpt({k: (v if v != "other" else "x") for k, v in c[1]})
                elif c[0] == "dOptBad":
                    no = no.dOpt("x")
                else:
                    no = no.nat(c[1] if c[1] != "other" else "x")
            if noun is None:
                if cross == "switch":
                    other()
                try:
                    gn = no.grammaticalNumber()
                except Exception as e:  # noqa
                    gn = exc_name(e)
                r = no.realize()
                return {"r": r, "w": P["warn"][0], "n": no.getProp("n"), "gn": gn}
            if line.get("notation") == "dep":
                tree = p.root(p.N(noun, **kw), p.det(no, **kw), **kw)
            else:
                tree = p.NP(no, p.N(noun, **kw), **kw)
            if cross == "switch":
                other()
            txt = tree.realize()
            if line.get("notation") == "dep":
                txt = txt.strip()
                if txt.endswith("."):
                    txt = txt[:-1]
                txt = txt[:1].lower() + txt[1:]
            if txt.endswith(" " + plur):
                return {"r": txt[:-len(plur) - 1], "w": P["warn"][0], "gn": "p"}
            if txt.endswith(" " + sing):
                return {"r": txt[:-len(sing) - 1], "w": P["warn"][0], "gn": "s"}
            return {"r": txt, "w": P["warn"][0], "gn": "?"}
        except Exception as e:  # noqa
            return {"err": exc_name(e)}


def model_view(line, m):
    """the part of the model's answer that the implementation side can observe"""
    if line["op"] == "no" and "noun" in line and "err" not in m:
        m = {"r": m["r"], "w": m["w"], "gn": m["gn"]}
    return cross_view(line, m)


def cross_view(line, x):
    """cross-language stratum: text and grammatical number are compared; of the warnings only whether there was one
    (a warning emitted while the other language is current is itself realized by pyrealb and can warn again about
    its own words - warning texts are C15's business)"""
    if line.get("cross") and "w" in x:
        x = dict(x)
        x["w"] = 1 if x["w"] else 0
    return x


# ===================================================================================================================
# the direct oracle: independent readers (words -> integer), written from the grammar of the numerals
# ===================================================================================================================

EN_UNITS = {"one": 1, "two": 2, "three": 3, "four": 4, "five": 5, "six": 6, "seven": 7, "eight": 8, "nine": 9}
EN_TEENS = {"ten": 10, "eleven": 11, "twelve": 12, "thirteen": 13, "fourteen": 14, "fifteen": 15, "sixteen": 16,
            "seventeen": 17, "eighteen": 18, "nineteen": 19}
EN_TENS = {"twenty": 20, "thirty": 30, "forty": 40, "fifty": 50, "sixty": 60, "seventy": 70, "eighty": 80, "ninety": 90}
EN_SCALES = {"thousand": 1, "million": 2, "billion": 3, "trillion": 4, "quadrillion": 5, "quintillion": 6}
EN_WORDS = set(EN_UNITS) | set(EN_TEENS) | set(EN_TENS) | set(EN_SCALES) | {"hundred", "and", "minus", "zero"}


class NotANumber(Exception):
    def __init__(self, kind, word=None):
        Exception.__init__(self, kind)
        self.kind, self.word = kind, word


def en_sub100(tok):
    if tok in EN_UNITS:
        return EN_UNITS[tok]
    if tok in EN_TEENS:
        return EN_TEENS[tok]
    if tok in EN_TENS:
        return EN_TENS[tok]
    parts = tok.split("-")
    if len(parts) == 2 and parts[0] in EN_TENS and parts[1] in EN_UNITS:
        return EN_TENS[parts[0]] + EN_UNITS[parts[1]]
    return None


def en_group(toks, i):
    """reads a number 1..999 starting at toks[i]; returns (value, next index) or None"""
    v = 0
    j = i
    if j + 1 < len(toks) and toks[j] in EN_UNITS and toks[j + 1] == "hundred":
        v = EN_UNITS[toks[j]] * 100
        j += 2
        k = j
        if k < len(toks) and toks[k] == "and":
            k += 1
        if k < len(toks):
            s = en_sub100(toks[k])
            if s is not None:
                return v + s, k + 1
        if k != j:
            raise NotANumber("dangling-and")
        return v, j
    if j < len(toks):
        s = en_sub100(toks[j])
        if s is not None:
            return s, j + 1
    return None


def parse_en(text):
    toks = text.split(" ")
    if "" in toks:
        raise NotANumber("spacing")
    for t in toks:
        for piece in t.split("-"):
            if piece not in EN_WORDS:
                raise NotANumber("unknown-word", piece)
    if toks == ["zero"]:
        return 0
    neg = False
    i = 0
    if toks[0] == "minus":
        neg, i = True, 1
    total, last_scale = 0, 7
    if i >= len(toks):
        raise NotANumber("empty")
    while i < len(toks):
        if toks[i] == "and" and total > 0:   # "one thousand and one"
            i += 1
        g = en_group(toks, i)
        if g is None:
            raise NotANumber("structure")
        v, i = g
        if i < len(toks) and toks[i] in EN_SCALES:
            k = EN_SCALES[toks[i]]
            if k >= last_scale:
                raise NotANumber("scale-order")
            total += v * 1000 ** k
            last_scale = k
            i += 1
        else:
            if i != len(toks):
                raise NotANumber("structure")
            total += v
    return -total if neg else total


FR_UNITS = {"un": 1, "deux": 2, "trois": 3, "quatre": 4, "cinq": 5, "six": 6, "sept": 7, "huit": 8, "neuf": 9}
FR_TEENS = {"dix": 10, "onze": 11, "douze": 12, "treize": 13, "quatorze": 14, "quinze": 15, "seize": 16}
FR_TENS = {"vingt": 20, "trente": 30, "quarante": 40, "cinquante": 50, "soixante": 60}
FR_SCALES = {"mille": 1, "million": 2, "milliard": 3, "trillion": 4, "quatrillion": 5, "quadrillion": 5, "quintillion": 6}
FR_WORDS = (set(FR_UNITS) | set(FR_TEENS) | set(FR_TENS) | set(FR_SCALES) | {s + "s" for s in FR_SCALES if s != "mille"}
            | {"cent", "cents", "vingts", "et", "moins", "zéro"})


def fr_hyphenated(tok):
    """one token (hyphenated compound) -> (value, may_take_et) ; traditional orthography"""
    p = tok.split("-")
    U, T, D = FR_UNITS, FR_TEENS, FR_TENS
    if len(p) == 1:
        w = p[0]
        if w in U:
            return U[w], None
        if w in T:
            return T[w], None
        if w in D:
            return D[w], ("un", "onze") if w == "soixante" else ("un",)
        return None
    if p[0] == "dix" and len(p) == 2 and p[1] in ("sept", "huit", "neuf"):
        return 10 + U[p[1]], None
    if p[0] in D and p[0] != "soixante" and len(p) == 2 and p[1] in U and p[1] != "un":
        return D[p[0]] + U[p[1]], None
    if p[0] == "soixante":
        r = p[1:]
        if len(r) == 1 and r[0] in U and r[0] != "un":
            return 60 + U[r[0]], None
        if len(r) == 1 and r[0] in T and r[0] != "onze":
            return 60 + T[r[0]], None
        if len(r) == 2 and r[0] == "dix" and r[1] in ("sept", "huit", "neuf"):
            return 70 + U[r[1]], None
        return None
    if p[0] == "quatre" and len(p) >= 2:
        if p[1:] == ["vingts"]:
            return 80, None
        if p[1] == "vingt":
            r = p[2:]
            if not r:
                return 80, None            # `quatre-vingt` (invariable before mille): tolerated
            if len(r) == 1 and r[0] in U:
                return 80 + U[r[0]], None
            if len(r) == 1 and r[0] in T:
                return 80 + T[r[0]], None
            if len(r) == 2 and r[0] == "dix" and r[1] in ("sept", "huit", "neuf"):
                return 90 + U[r[1]], None
    return None


def fr_sub100(toks, i):
    if i >= len(toks):
        return None
    h = fr_hyphenated(toks[i])
    if h is None:
        return None
    v, et = h
    if et and i + 2 < len(toks) and toks[i + 1] == "et" and toks[i + 2] in et:
        return v + (1 if toks[i + 2] == "un" else 11), i + 3
    return v, i + 1


def fr_group(toks, i):
    """1..999 ; the plural mark of `cent` is not judged here (see C16 report), its position is"""
    j = i
    mult = None
    if j < len(toks) and toks[j] in FR_UNITS and toks[j] != "un" and j + 1 < len(toks) and toks[j + 1] in ("cent", "cents"):
        mult = FR_UNITS[toks[j]]
        j += 2
    elif j < len(toks) and toks[j] == "cent":
        mult = 1
        j += 1
    if mult is not None:
        s = fr_sub100(toks, j)
        if s is not None:
            if toks[j - 1] == "cents":
                raise NotANumber("cents-before-number")
            return mult * 100 + s[0], s[1]
        return mult * 100, j
    return fr_sub100(toks, i)


def parse_fr(text):
    toks = text.split(" ")
    if "" in toks:
        raise NotANumber("spacing")
    for t in toks:
        for piece in t.split("-"):
            if piece not in FR_WORDS:
                raise NotANumber("unknown-word", piece)
    if toks == ["zéro"]:
        return 0
    neg = False
    i = 0
    if toks[0] == "moins":
        neg, i = True, 1
    if i >= len(toks):
        raise NotANumber("empty")
    total, last_scale = 0, 7
    while i < len(toks):
        if toks[i] == "mille":                       # `mille` alone = 1000 (never `un mille`)
            v, k, i = 1, 1, i + 1
        else:
            g = fr_group(toks, i)
            if g is None:
                raise NotANumber("structure")
            v, i = g
            base = None
            if i < len(toks):
                w = toks[i]
                base = w if w in FR_SCALES else (w[:-1] if w.endswith("s") and w[:-1] in FR_SCALES and w[:-1] != "mille" else None)
            if base is not None:
                k = FR_SCALES[base]
                if k == 1:
                    if v == 1:
                        raise NotANumber("un-mille")
                else:
                    if (v >= 2) != w.endswith("s"):
                        raise NotANumber("scale-plural")
                i += 1
            else:
                if i != len(toks):
                    raise NotANumber("structure")
                total += v
                break
        if k >= last_scale:
            raise NotANumber("scale-order")
        total += v * 1000 ** k
        last_scale = k
    return -total if neg else total


PARSE = {"en": parse_en, "fr": parse_fr}

ORD_EN = {"one": "first", "two": "second", "three": "third", "four": "fourth", "five": "fifth", "six": "sixth", "seven": "seventh",
          "eight": "eighth", "nine": "ninth", "ten": "tenth", "eleven": "eleventh", "twelve": "twelfth", "thirteen": "thirteenth",
          "fourteen": "fourteenth", "fifteen": "fifteenth", "sixteen": "sixteenth", "seventeen": "seventeenth",
          "eighteen": "eighteenth", "nineteen": "nineteenth", "twenty": "twentieth", "thirty": "thirtieth", "forty": "fortieth",
          "fifty": "fiftieth", "sixty": "sixtieth", "seventy": "seventieth", "eighty": "eightieth", "ninety": "ninetieth",
          "hundred": "hundredth", "thousand": "thousandth", "million": "millionth", "billion": "billionth",
          "trillion": "trillionth", "quadrillion": "quadrillionth", "quintillion": "quintillionth"}
ORD_FR = {"un": "unième", "deux": "deuxième", "trois": "troisième", "quatre": "quatrième", "cinq": "cinquième", "six": "sixième",
          "sept": "septième", "huit": "huitième", "neuf": "neuvième", "dix": "dixième", "onze": "onzième", "douze": "douzième",
          "treize": "treizième", "quatorze": "quatorzième", "quinze": "quinzième", "seize": "seizième", "vingt": "vingtième",
          "vingts": "vingtième", "trente": "trentième", "quarante": "quarantième", "cinquante": "cinquantième",
          "soixante": "soixantième", "cent": "centième", "cents": "centième", "mille": "millième"}
for _w in ("million", "milliard", "trillion", "quatrillion", "quadrillion", "quintillion"):
    ORD_FR[_w] = ORD_FR[_w + "s"] = _w + "ième"


def split_last(text):
    m = re.match(r"^(.*[ -])?([^ -]+)$", text)
    return (m.group(1) or ""), m.group(2)


def ord_expected(lang, n, cardinal, gender):
    if lang == "fr" and n == 1:
        return "première" if gender == "f" else "premier"
    pre, last = split_last(cardinal)
    tbl = ORD_EN if lang == "en" else ORD_FR
    if last not in tbl:
        return None
    return pre + tbl[last]


ROMAN_CANON = re.compile(r"^M{0,3}(CM|CD|D?C{0,3})(XC|XL|L?X{0,3})(IX|IV|V?I{0,3})$")
ROMAN_VAL = {"I": 1, "V": 5, "X": 10, "L": 50, "C": 100, "D": 500, "M": 1000}


def roman_value(s):
    tot = 0
    for a, b in zip(s, s[1:] + " "):
        if a not in ROMAN_VAL:
            return None
        tot += -ROMAN_VAL[a] if (b in ROMAN_VAL and ROMAN_VAL[b] > ROMAN_VAL[a]) else ROMAN_VAL[a]
    return tot


FMT = {"en": re.compile(r"^-?\d{1,3}(,\d{3})*(\.\d+)?$"), "fr": re.compile("^-?\\d{1,3}( \\d{3})*(,\\d+)?$")}


def parse_formatted(lang, text):
    if not FMT[lang].match(text):
        return None
    if lang == "en":
        t = text.replace(",", "")
    else:
        t = text.replace(" ", "").replace(",", ".")
    nd = len(t.split(".")[1]) if "." in t else 0
    return Decimal(t), nd


def value_class(v):
    if isinstance(v, float):
        if v != v or v in (float("inf"), float("-inf")):
            return "nonfinite"
        a = abs(v)
        if a == 1:
            return "float=1"
        return "float<2" if a < 2 else "float>=2"
    a = abs(v)
    return "int=%d" % a if a < 2 else "int>=2"


# ===================================================================================================================
# generation
# ===================================================================================================================

def no_line(lang, lemma, calls, noun=None, notation=None, g=None):
    l = {"op": "no", "lang": lang, "lemma": lemma, "calls": calls}
    if noun is not None:
        l["noun"] = noun
        l["notation"] = notation or "const"
    if g is not None:
        l["g"] = g
    return l


NAT = [["nat", True]]
ORD = [["dOpt", [["ord", True]]]]
ROM = [["dOpt", [["rom", True]]]]
RAW = [["dOpt", [["raw", True]]]]


def int_lines(n, full=True):
    """the lines every integer of a sweep gets, both languages"""
    out = []
    j = {"t": "int", "v": str(n)}
    for lang in LANGS:
        out.append(no_line(lang, j, NAT))
        if n >= 0:
            out.append(no_line(lang, j, ORD))
        if full:
            out.append(no_line(lang, j, []))
    return out


def special_ints(rng):
    s = set()
    for k in range(0, 22):
        for d in (-1, 0, 1):
            for sg in (1, -1):
                s.add(sg * (10 ** k + d))
    for k in (53, 54, 63, 64, 69, 70):
        for d in (-1, 0, 1, 2, 3):
            s.add(2 ** k + d)
    for base in (10 ** 15, 10 ** 18, 10 ** 12, 10 ** 9, 10 ** 6, 10 ** 3):
        for m in (1, 2, 21, 71, 80, 81, 91, 100, 101, 200, 201, 999):
            s.add(m * base)
            s.add(m * base + 1)
            s.add(m * base + 80)
    s.update([10 ** 17 + 1, 2 ** 53 + 1, 999999999999999999999, -999999999999999999999, 200, 300, 80, 81, 1000000, 2000000, 80000, 200000])
    return sorted(x for x in s if abs(x) < 10 ** 21)


def sample_int(rng):
    k = rng.randint(1, 21)
    n = rng.randrange(10 ** (k - 1), 10 ** k) if k > 1 else rng.randrange(0, 10)
    r = rng.random()
    if r < 0.35:
        # zero out some triplets / digits so that empty groups and `one` groups are frequent
        ds = list(str(n))
        for i in range(0, len(ds), 3):
            c = rng.random()
            if c < 0.3:
                ds[-(i + 3):len(ds) - i] = "0" * len(ds[-(i + 3):len(ds) - i])
            elif c < 0.45:
                seg = ds[-(i + 3):len(ds) - i]
                ds[-(i + 3):len(ds) - i] = list(("0" * len(seg))[:-1] + "1")
        n = int("".join(ds))
    return -n if rng.random() < 0.25 else n


FLOATS_FIXED = [0.0, -0.0, 0.5, -0.5, 1.0, -1.0, 1.5, -1.5, 2.0, -2.0, 2.5, 3.5, 0.125, 0.375, 2.675, 1.005, 1.999, -1.999, 1.9999999,
                2.0000001, 0.001, -0.001, 0.0005, 1e-7, 123456.789, 1234567.891, 999.995, 999.9949999, 0.045, 1e15, 1e16, 1e21, 1e22,
                123456789012345678.0, 0.1, 0.2, 0.3, 1 / 3, 2 / 3, 1e-320, 5e-324, 1.7976931348623157e308, float("inf"),
                float("-inf"), float("nan"), 0.0625, 0.03125, 8.5, 9.5, 99.5, 100.5, 0.9999995, 12345.678949999]


def sample_float(rng):
    r = rng.random()
    if r < 0.25:
        return round(rng.uniform(-1e6, 1e6), rng.randint(0, 7))
    if r < 0.5:
        return rng.randint(-10 ** 6, 10 ** 6) / 2 ** rng.randint(1, 10)          # exact ties at some precision
    if r < 0.65:
        return rng.uniform(-3, 3)
    if r < 0.8:
        return rng.uniform(-1, 1) * 10 ** rng.randint(-8, 22)
    if r < 0.9:
        return float(rng.randint(-5, 5))
    return rng.choice(FLOATS_FIXED)


STR_VALID = ["0", "7", "-7", "+7", "007", "1000", "1,000", "1 000", "12,345", "12 345", "1.5", "-1.5", "1.0", "1.", "2.50", "1,5",
             "1e+3", "1E-2", "1.5e+3", "2e+0", "1 ", "1,", "12\n", "1.0\n", "1,000.5", "1 000.5", "999 999", "1 e+5", "-0", "+0.0",
             "1e+400", "123456789012345678901", "1234567890123456789012", "0.1", "3.14159", "1,e+2", "5 5"]
STR_BAD = ["", " ", "abc", "1,000,000", "1 000 000", "1.5.2", "--1", "1e5", "e+5", ".5", "1_000", "１２", "1e+", "1 2 3", "0x10", "1,2,3",
           "+", "-", "1..2", " 1", "1\n\n", "1\t"]
LEX_WORDS = {"en": ["one", "two", "three", "ten", "twenty", "twenty-one", "hundred", "thousand", "million", "first", "second", "third",
                    "ninth", "twelfth", "twentieth", "eighty-first", "hundredth", "half", "one-third", "three-quarters", "billion"],
             "fr": ["un", "deux", "trois", "dix", "vingt", "quatre-vingts", "cent", "mille", "million", "premier", "deuxième",
                    "cinquième", "neuvième", "neuf", "centième", "zéro", "trente-six", "soixante-dix", "milliard"]}


def gen_task(task, tier):
    """task -> list of protocol lines (deterministic)"""
    kind = task[0]
    lines = []
    if kind == "range":
        _, lo, hi, full = task
        for n in range(lo, hi):
            # cardinal and ordinal words for every n; the digit formatter for the small ones and every 7th
            lines.extend(int_lines(n, full and (abs(n) <= 2000 or n % 7 == 0)))
    elif kind == "ints":
        for n in task[1]:
            lines.extend(int_lines(n, True))
    elif kind == "sample":
        rng = random.Random(task[1])
        for i in range(task[2]):
            # thorough: the digit formatter on one sample in four (cardinal and ordinal words on all)
            lines.extend(int_lines(sample_int(rng), tier != "thorough" or i % 4 == 0))
    elif kind == "functions":
        rng = random.Random(task[1])
        for n in range(-2, 4101):
            lines.append({"op": "roman", "n": str(n)})
        for n in range(0, 4000):
            for lang in LANGS:
                lines.append(no_line(lang, {"t": "int", "v": str(n)}, ROM))
        for n in (-1, 4000, 4001, 10 ** 6):
            for lang in LANGS:
                lines.append(no_line(lang, {"t": "int", "v": str(n)}, ROM))
        for n in list(range(-120, 0)) + [-10 ** 6, -10 ** 20, 10 ** 21, 10 ** 21 + 1, -10 ** 21, 10 ** 24, 10 ** 30]:
            for lang in LANGS:
                lines.append({"op": "spell", "lang": lang, "n": str(n)})
                lines.append({"op": "ordinal", "lang": lang, "n": str(n), "g": rng.choice("mf")})
        for n in range(0, 1200):
            lines.append({"op": "ordinal", "lang": "fr", "n": str(n), "g": "f"})
        # at and beyond the last scale word, through the terminal
        for n in (10 ** 21 - 1, 10 ** 21, -10 ** 21, 10 ** 21 + 1, 10 ** 24, 1 - 10 ** 21):
            for lang in LANGS:
                for calls in (NAT, ORD, []):
                    lines.append(no_line(lang, {"t": "int", "v": str(n)}, calls))
    elif kind == "floats":
        rng = random.Random(task[1])
        xs = (list(FLOATS_FIXED) if task[3] else []) + [sample_float(rng) for _ in range(task[2])]
        for x in xs:
            j = val_json(x)
            for lang in LANGS:
                for p in range(0, 7):
                    lines.append(no_line(lang, j, [["dOpt", [["mprecision", p]]]]))
                lines.append(no_line(lang, j, []))
                lines.append(no_line(lang, j, RAW))
                lines.append(no_line(lang, j, rng.choice([NAT, ORD, ROM])))
                if rng.random() < 0.1:
                    lines.append(no_line(lang, j, [["dOpt", [["mprecision", rng.choice([7, 9, 12, 20, 40])]]]]))
    elif kind == "np":
        rng = random.Random(task[1])
        P = pyrealb_api()
        for lang, nouns in (("en", task[2]), ("fr", task[3])):
            for noun in nouns:
                g = (P["lex"][lang][noun]["N"].get("g") or ("n" if lang == "en" else "m"))
                vals = [0, 1, -1, 2, -2, rng.choice([3, 21, 71, 100, 101, 1000]), rng.randint(-10 ** 6, 10 ** 6),
                        1.0, -1.0, 1.5, -1.5, 2.0, rng.choice([0.5, 1.999, -1.999, 2.5, 0.0, -0.0, 2.0000001, float("inf"), float("nan")])]
                if task[4]:  # thorough sweep over all nouns: fewer values per noun
                    vals = [1, 2, rng.choice([0, -1, -2, 1.5, 1.0, 21]), rng.choice(vals)]
                for v in vals:
                    j = val_json(v)
                    calls = rng.choice([[], [], NAT, RAW]) if isinstance(v, int) else rng.choice([[], [], RAW])
                    lines.append(no_line(lang, j, calls, noun, rng.choice(["const", "const", "dep"]), g))
                # the number in words before the noun (sign and French gender of `un`), both notations
                for k, v in enumerate([1, -1] + ([] if task[4] else [rng.choice([21, -21, 81, -71, 1001, -1000001]), -rng.randint(2, 10 ** 6)])):
                    lines.append(no_line(lang, val_json(v), NAT, noun, "dep" if (k + len(noun)) % 2 else "const", g))
                # ordinals are singular
                v = rng.choice([1, 2, 3, 21, 100, 80, 1000])
                lines.append(no_line(lang, val_json(v), ORD, noun, rng.choice(["const", "dep"]), g))
            for w in (LEX_WORDS[lang] if nouns else []):
                noun = rng.choice(nouns)
                g = (P["lex"][lang][noun]["N"].get("g") or ("n" if lang == "en" else "m"))
                lines.append(no_line(lang, lemma_str_json(w, lang, P), [], noun, "const", g))
    elif kind == "lemma":
        rng = random.Random(task[1])
        P = pyrealb_api()
        for lang in LANGS:
            strs = list(STR_VALID) + list(STR_BAD) + LEX_WORDS[lang] + LEX_WORDS["en" if lang == "fr" else "fr"]
            for _ in range(task[2]):
                # structured random strings over the alphabet of the regular expression
                s = rng.choice(["", "-", "+"]) + str(rng.randint(0, 10 ** rng.randint(1, 9)))
                if rng.random() < 0.6:
                    s += rng.choice([".", ",", " "]) + (str(rng.randint(0, 999)).zfill(rng.randint(0, 3)) if rng.random() < 0.8 else "")
                if rng.random() < 0.2:
                    s += rng.choice("eE") + rng.choice(["+", "-", ""]) + str(rng.randint(0, 12))
                if rng.random() < 0.1:
                    s = s[:rng.randint(0, len(s))] + rng.choice([" ", ",", ".", "x", "\n", "-"]) + s[rng.randint(0, len(s)):]
                strs.append(s)
            for s in strs:
                j = lemma_str_json(s, lang, P)
                for calls in ([], NAT, rng.choice([ORD, RAW, ROM, [["dOpt", [["mprecision", rng.randint(0, 6)]]]]])):
                    lines.append(no_line(lang, j, calls))
            # integers written as digit strings, beyond the doubles too: the exact integer is meant
            big = [2 ** 53 + 1, -(2 ** 53 + 1), 2 ** 53 + 3, 2 ** 53, 10 ** 16 + 1, 10 ** 17 + 1, -(10 ** 17 + 1), 10 ** 20 + 1,
                   10 ** 21 - 1, 1 - 10 ** 21, 2 ** 63 + 1, 2 ** 64 - 1, 123456789012345678901, 99999999999999999, 7, -45, 1000001]
            big += [rng.randrange(2 ** 53, 10 ** 21) * rng.choice([1, 1, -1]) for _ in range(40 if tier != "thorough" else 4000)]
            big += [sample_int(rng) for _ in range(40 if tier != "thorough" else 4000)]
            for n in big:
                j = lemma_str_json(("+" if (n > 0 and rng.random() < 0.1) else "") + str(n), lang, P)
                for calls in ([], NAT, RAW) + ((ORD,) if n >= 0 else ()):
                    lines.append(no_line(lang, j, calls))
            # all the lexicon's number words
            for w, info in sorted(P["lex"][lang].items()):
                if "value" in info:
                    lines.append(no_line(lang, lemma_str_json(w, lang, P), []))
                    lines.append(no_line(lang, lemma_str_json(w, lang, P), rng.choice([NAT, ORD, RAW, [["dOpt", [["nat", False]]]]])))
                    if rng.random() < 0.3:   # a word lemma has no "mprecision" entry
                        lines.append(no_line(lang, lemma_str_json(w, lang, P), [["dOpt", [["nat", False], ["ord", False], ["raw", False]]]]))
    elif kind == "cross":
        # every kind of `no` line with the other language current (explicit lang= / built then switched): the text
        # and the grammatical number must be those of the monolingual run, i.e. the model's
        rng = random.Random(task[1])
        P = pyrealb_api()
        nouns = {"en": task[3], "fr": task[4]}
        for _ in range(task[2]):
            lang = rng.choice(LANGS)
            r = rng.random()
            if r < 0.35:
                v = rng.choice([1000, 1001, 1234, 12345, 999999, 1000000, 1234567, 10 ** 9 + 1, -1000, -2500000,
                                10 ** 17 + 1, rng.randint(1000, 10 ** 7), rng.randint(-10 ** 12, 10 ** 12), sample_int(rng)])
            elif r < 0.7:
                v = rng.choice([1234.5, -1234.5, 1234567.891, 0.5, 1.5, 2.5, 1000.0, 999.995, 1e15, 12345.678, -0.001,
                                1.0, -1.0, 2.0, sample_float(rng), sample_float(rng), round(rng.uniform(1000, 10 ** 7), 3)])
            else:
                v = rng.choice([0, 1, -1, 2, 21, 71, 80, 81, 100, 200, 999, 3999, rng.randint(0, 3999)])
            if isinstance(v, float):
                calls = rng.choice([[], [["dOpt", [["mprecision", rng.randint(0, 6)]]]], [["dOpt", [["mprecision", rng.randint(0, 6)]]]], RAW, NAT])
            else:
                calls = rng.choice([[], [], NAT, NAT, ORD, ROM, RAW, [["dOpt", [["mprecision", rng.randint(0, 6)]]]]])
            how = rng.choice(["explicit", "switch"])
            l = no_line(lang, val_json(v), calls)
            if nouns[lang] and rng.random() < 0.3 and calls is not ROM:
                noun = rng.choice(nouns[lang])
                g = (P["lex"][lang][noun]["N"].get("g") or ("n" if lang == "en" else "m"))
                l = no_line(lang, val_json(v), calls, noun, rng.choice(["const", "dep"]), g)
            l["cross"] = how
            lines.append(l)
        for lang in LANGS:
            for sx in ["1000", "1,000", "1 000", "12.50", "1234.5", "-2500.75"] + LEX_WORDS[lang]:
                for how in ("explicit", "switch"):
                    for calls in ([], NAT, rng.choice([ORD, RAW, [["dOpt", [["mprecision", 3]]]]])):
                        l = no_line(lang, lemma_str_json(sx, lang, P), calls)
                        l["cross"] = how
                        lines.append(l)
    elif kind == "malformed":
        rng = random.Random(task[1])
        vals = [0, 1, 5, -3, 1234567, 1.5, 10 ** 21, 2 ** 70]
        optvals = [True, False, 0, 3, -1, "other", 7]
        keys = ["mprecision", "raw", "nat", "ord", "rom", "bogus", "prec"]
        for lang in LANGS:
            lines.append(no_line(lang, {"t": "other"}, []))
            lines.append(no_line(lang, {"t": "other"}, ORD))
            lines.append(no_line(lang, {"t": "other"}, NAT))
            for _ in range(task[2]):
                v = rng.choice(vals)
                calls = []
                for _c in range(rng.randint(1, 3)):
                    r = rng.random()
                    if r < 0.6:
                        ks = rng.sample(keys, rng.randint(1, 3))
                        calls.append(["dOpt", [[k, rng.choice(optvals)] for k in ks]])
                    elif r < 0.7:
                        calls.append(["dOptBad"])
                    else:
                        calls.append(["nat", rng.choice([True, False, "other", 1])])
                lines.append(no_line(lang, val_json(v), calls))
    else:
        raise core.Infra("unknown task " + kind)
    return lines


# ===================================================================================================================
# one task: model, implementation, comparison, oracle
# ===================================================================================================================

DIGIT_STRING = re.compile(r"^[-+]?[0-9]+$")


def lemma_value(lem):
    """the number a lemma stands for, when that is beyond discussion: an int, a float, or a STRING of decimal digits
    with an optional sign (no separator, no exponent, not a lexicon word) - the exact integer, whatever its size"""
    if lem["t"] in ("int", "flt", "special"):
        return val_py(lem)
    if lem["t"] == "str" and lem.get("lex") is None and DIGIT_STRING.match(lem["s"]):
        return int(lem["s"])
    return None


def line_value(line):
    lem = line.get("lemma")
    if lem is None:
        return int(line["n"])
    return lemma_value(lem)


def mode_of(line):
    """which realization the options of a line ask for (valid option calls only) ; None if unclear"""
    d = {"mprecision": 2, "raw": False, "ord": False}
    for c in line["calls"]:
        if c[0] == "dOpt":
            for k, v in c[1]:
                if k not in ("mprecision", "raw", "nat", "ord", "rom") or v == "other":
                    return None
                if k == "mprecision" and (isinstance(v, bool) or not isinstance(v, int) or v < 0):
                    return None   # a rejected precision stops the call: what the rest of it asked for is not applied
                if k != "mprecision" and not isinstance(v, bool):
                    return None
                d[k] = v
        elif c[0] == "nat":
            if not isinstance(c[1], bool):
                return None
            d["nat"] = c[1]
        else:
            return None
    if d.get("nat") is True:
        return ("nat", d)
    if d.get("ord") is True:
        return ("ord", d)
    if d.get("rom") is True:
        return ("rom", d)
    if d.get("raw") is False:
        return ("fmt", d)
    return ("raw", d)


def oracle(line, a, fails, spellings):
    """the property on what the implementation answered; appends (signature, line, detail)"""
    op = line["op"]
    if op == "roman":
        n = int(line["n"])
        if 1 <= n <= 3999:
            r = a.get("r")
            if r is None or roman_value(r) != n or not ROMAN_CANON.match(r):
                fails.append(("roman:not-canonical", line, "roman(%d) = %r" % (n, a)))
        return
    if op in ("spell", "ordinal"):
        n = int(line["n"])
        if abs(n) >= 10 ** 21:
            return
        if op == "spell":
            check_spelling(line["lang"], n, a, line, fails, spellings)
        return
    lem = line["lemma"]
    v = lemma_value(lem)
    if v is None:
        return
    md = mode_of(line)
    if md is None:
        return
    mode, d = md
    lang = line["lang"]
    noun = line.get("noun")
    if noun is not None:
        # number of the governed noun
        if d.get("nat") is True and d.get("ord") is True:
            return   # contradictory request (cardinal words asked of an ordinal): outside the property
        if mode == "ord" and isinstance(v, int) and v >= 0:
            want = "s"
        elif mode == "ord":
            want = None
        elif isinstance(v, float) and v != v:
            want = None
        elif lang == "en":
            want = ("p" if abs(v) != 1 else ("s" if isinstance(v, int) else None))   # 1.0: plural by design, not judged
        else:
            want = "p" if abs(v) >= 2 else "s"
        got = a.get("gn")
        if "err" in a:
            fails.append(("agree:%s:exception:%s" % (lang, a["err"]), line, "NP raised"))
        elif want is not None and got != want:
            fails.append(("agree:%s:%s:%s-not-%s" % (lang, value_class(v), got, want), line,
                          "noun %r governed by %r is %r, the language requires %r" % (noun, v, got, want)))
        if noun is not None and mode not in ("nat", "ord", "fmt"):
            return
    if not isinstance(v, int):
        if mode == "fmt" and lem["t"] == "flt":
            p = d["mprecision"]
            if not (0 <= p <= 6):
                return
            if "err" in a:
                fails.append(("format:%s:exception:%s" % (lang, a["err"]), line, "formatter raised"))
                return
            pr = parse_formatted(lang, a["r"])
            want = Decimal(v).quantize(Decimal(1).scaleb(-p), rounding=decimal.ROUND_HALF_EVEN)
            if pr is None or pr[0] != want or pr[1] != p:
                fails.append((("format:%s:other-language-current" if line.get("cross") else "format:%s:float-parse-back") % lang, line, "%r with %d decimals printed %r, expected value %s" % (v, p, a["r"], want)))
        return
    if abs(v) >= 10 ** 21:
        return
    if mode == "nat":
        # inside a number-noun phrase too: the words before the noun are read back (sign included; the feminine
        # `une` of a French number governed by a feminine noun is the word `un`) and must denote the value
        check_spelling(lang, v, a, line, fails, spellings, phrase=noun is not None,
                       feminine=(lang == "fr" and noun is not None and line.get("g") == "f"))
    elif mode == "ord" and v >= 1:
        if "err" in a:
            fails.append(("ordinal:%s:exception:%s" % (lang, a["err"]), line, "ordinal raised"))
            return
        P = pyrealb_api()
        with Quiet():
            try:
                card = P["Nb"].enToutesLettres(v, lang)
            except Exception:  # noqa
                return
        g = line.get("g", "m") if noun is not None else "m"
        want = ord_expected(lang, v, card, g)
        if want is None:
            return      # the cardinal ends with a word the ordinal table does not know: reported by the spelling check
        if a["r"] != want:
            fails.append(("ordinal:%s:%s->%s" % (lang, split_last(card)[1], split_last(a["r"])[1]), line,
                          "ordinal of %d is %r, the ending rule gives %r" % (v, a["r"], want)))
    elif mode == "rom" and 1 <= v <= 3999:
        r = a.get("r")
        if r is None or roman_value(r) != v or not ROMAN_CANON.match(r):
            fails.append(("roman:not-canonical", line, "NO(%d) rom = %r" % (v, a)))
    elif mode == "fmt":
        if "err" in a:
            fails.append(("format:%s:exception:%s" % (lang, a["err"]), line, "formatter raised"))
            return
        pr = parse_formatted(lang, a["r"])
        if pr is None or pr[0] != v or pr[1] != 0:
            sig = "format:int-through-float" if (abs(v) > TWO53 and pr is not None and pr[1] == 0 and FMT[lang].match(a["r"])) \
                else ("format:%s:other-language-current" if line.get("cross") else "format:%s:int-parse-back") % lang
            fails.append((sig, line, "NO(%d) printed %r" % (v, a["r"])))


def masculine_form(text):
    """French: the feminine `une` in unit position (`une`, `moins une`, `vingt et une`, `quatre-vingt-une`) -> `un`"""
    toks = text.split(" ")
    if toks and toks[-1] == "une":
        toks[-1] = "un"
    elif toks and toks[-1].endswith("-une"):
        toks[-1] = toks[-1][:-1]
    return " ".join(toks)


def check_spelling(lang, n, a, line, fails, spellings, phrase=False, feminine=False):
    where = "phrase:" if phrase else ""
    if "err" in a:
        fails.append(("spell:%s:%sexception:%s" % (lang, where, a["err"]), line, "spelling %d raised" % n))
        return
    text = a["r"]
    shown = text + (" " + line["noun"] + "…" if phrase else "")
    try:
        back = PARSE[lang](masculine_form(text) if feminine else text)
    except NotANumber as e:
        sig = "spell:%s:%s%s" % (lang, where, e.kind) + (":" + e.word if e.word else "")
        fails.append((sig, line, "%d spelled %r: not a numeral of the language (%s)" % (n, shown, e.kind)))
        back = None
    if back is not None and back != n:
        fails.append(("spell:%s:%sdenotes-another-number" % (lang, where), line,
                      "%d spelled %r which denotes %d" % (n, shown, back)))
    if spellings is not None:
        # injectivity: alone, before a masculine noun, before a feminine noun are three contexts
        key = (lang + (":f" if feminine else (":np" if phrase else "")), text)
        o = spellings.setdefault(key, n)
        if o != n:
            fails.append(("spell:%s:%scollision" % (lang, where), line, "%d and %d are both spelled %r" % (o, n, shown)))


def run_task(args):
    task, tier, driver = args
    lines = gen_task(task, tier)
    model = core.run_driver(lines, driver)
    diffs, fails = [], []
    spellings = {}
    n_nontrivial = 0
    dist = {}
    samples = []
    seen = set()
    for i, (l, m) in enumerate(zip(lines, model)):
        if "driver_error" in m:
            raise core.Infra("driver error: %s on %s" % (m["driver_error"], core.canon(l)[:300]))
        a = cross_view(l, impl(l))
        mv = model_view(l, m)
        if mv != a:
            if len(diffs) < 40:
                diffs.append({"line": l, "model": mv, "impl": a})
        v = line_value(l)
        trivial = v is not None and not isinstance(v, float) and abs(v) <= 1
        if not trivial:
            if task[0] in ("range", "ints", "functions"):
                n_nontrivial += 1      # every line of a sweep is a different (op, language, number)
            else:
                h = hashlib.md5(core.canon([l, a]).encode()).digest()[:8]
                if h not in seen:
                    seen.add(h)
                    n_nontrivial += 1
        key = l["op"] if l["op"] != "no" else "no:" + ("np-" + l["notation"] if "noun" in l else (l["lemma"]["t"]))
        if l.get("cross"):
            key = "cross-" + l["cross"] + ":" + key
        dist[key] = dist.get(key, 0) + 1
        if "err" in a:
            dist["impl-exception:" + a["err"]] = dist.get("impl-exception:" + a["err"], 0) + 1
        if i % 50021 == 7 and len(samples) < 2:
            samples.append({"line": l, "answer": a})
        oracle(l, a, fails, spellings)
    # keep per signature the smallest inputs
    by = {}
    for sig, l, d in fails:
        by.setdefault(sig, []).append((len(core.canon(l)), core.canon(l), l, d))
    kept = []
    for sig, xs in by.items():
        xs.sort(key=lambda t: t[:2])
        for _, _, l, d in xs[:3]:
            kept.append((sig, l, d))
    return {"n": len(lines), "nontrivial": n_nontrivial, "diffs": diffs, "fails": kept, "nfails": len(fails), "dist": dist,
            "samples": samples,
            # cross-task injectivity is implied by the parse-back (a shared spelling reads back as one number only);
            # the explicit cross-task comparison is kept where it is cheap
            "spellings": spellings if (task[0] in ("sample", "ints") and tier != "thorough") else {}}


class CountedSet:
    """stands for ctx.distinct when the distinct non-trivial evaluations were counted inside the worker processes"""

    def __init__(self):
        self.n = 0

    def add(self, _):
        self.n += 1

    def __len__(self):
        return self.n


def choose_nouns(rng, lang, k, P):
    lex = P["lex"][lang]
    names = sorted(w for w, v in lex.items() if "N" in v and " " not in w and "value" not in v)
    rng.shuffle(names)
    out = []
    with Quiet():
        P["load"][lang]()
        for w in names:
            P["warn"][0] = 0
            s1, s2 = noun_forms(lang, w, P)
            if s1 and s2 and s1 != s2 and not P["warn"][0] and "[" not in s1 + s2 and " " not in s1 + s2 \
                    and not s2.endswith(" " + s1) and not s1.endswith(s2):
                out.append(w)
                if k is not None and len(out) >= k:
                    break
    return out


def plan(ctx, deep=False):
    rng = ctx.rng
    thorough = ctx.tier == "thorough"
    P = pyrealb_api()
    tasks = []
    if thorough:
        lo, hi, step, nsample = -10 ** 6, 10 ** 6 + 1, 25000, 10 ** 6
    elif deep:
        lo, hi, step, nsample = -120000, 120001, 8000, 200000
    else:
        lo, hi, step, nsample = -20000, 20001, 2500, 50000
    for a in range(lo, hi, step):
        # the digit formatter / raw line only on part of the big sweeps (the spelling and ordinal on all)
        tasks.append(("range", a, min(a + step, hi), (not thorough) or abs(a) <= 100000))
    tasks.append(("ints", special_ints(rng)))
    per = 3125 if not thorough else 20000
    for i in range(nsample // per):
        tasks.append(("sample", rng.getrandbits(48), per))
    tasks.append(("functions", rng.getrandbits(48)))
    nf = 12000 if thorough else (3000 if deep else 1200)
    for i in range(8):
        tasks.append(("floats", rng.getrandbits(48), nf // 8, i == 0))
    if thorough:
        en, fr = choose_nouns(rng, "en", None, P), choose_nouns(rng, "fr", None, P)
        for i in range(0, max(len(en), len(fr)), 2500):
            tasks.append(("np", rng.getrandbits(48), en[i:i + 2500], fr[i:i + 2500], True))
    k = 400 if deep else 160
    en, fr = choose_nouns(rng, "en", k, P), choose_nouns(rng, "fr", k, P)
    for i in range(0, k, 40):
        tasks.append(("np", rng.getrandbits(48), en[i:i + 40], fr[i:i + 40], False))
    ncross = 160000 if thorough else (20000 if deep else 6000)
    for i in range(8):
        tasks.append(("cross", rng.getrandbits(48), ncross // 8, en[:40], fr[:40]))
    tasks.append(("lemma", rng.getrandbits(48), 3000 if thorough else 400))
    tasks.append(("malformed", rng.getrandbits(48), 4000 if thorough else 600))
    return tasks


def run(ctx, deep=False):
    pyrealb_api()
    tasks = plan(ctx, deep)
    with multiprocessing.get_context("fork").Pool(min(16, os.cpu_count() or 1)) as pool:
        results = pool.map(run_task, [(t, ctx.tier, ctx.driver) for t in tasks], chunksize=1)
    if not isinstance(ctx.distinct, CountedSet):
        ctx.distinct = CountedSet()
    dist = {}
    spell = {}
    for t, r in zip(tasks, results):
        ctx.cov["evaluations"] += r["n"]
        ctx.cov["traces_validated_against_impl"] += r["n"]
        ctx.distinct.n += r["nontrivial"]
        for s in r["samples"]:
            if len(ctx.cov["samples"]) < 12:
                ctx.cov["samples"].append(s)
        for k, v in r["dist"].items():
            dist[k] = dist.get(k, 0) + v
        for d in r["diffs"]:
            ctx.diff(d["line"], d["model"], d["impl"])
        for sig, l, d in r["fails"]:
            ctx.fail(sig, l, d)
        # injectivity across tasks (within a task it was checked by the worker; ranges are disjoint by value but the
        # sampled numbers can hit the same spelling from another task)
        for k, n in r["spellings"].items():
            o = spell.setdefault(k, n)
            if o != n:
                ctx.fail("spell:%s:collision" % k[0], {"op": "spell", "lang": k[0], "n": str(n)}, "%d and %d are both spelled %r" % (o, n, k[1]))
    ctx.notes["distribution"] = dict(sorted(dist.items()))
    ctx.notes["tasks"] = len(tasks)
    ctx.exhaustive = True
    rng_txt = "[-10^6, 10^6]" if ctx.tier == "thorough" else ("[-120000, 120000]" if deep else "[-20000, 20000]")
    ctx.notes["exhaustive_scope"] = ("every integer in %s in both languages (cardinal words, ordinal for n>=0); Roman numerals "
                                     "0..3999; every lexicon word with a value" % rng_txt)


def search(ctx):
    """deeper search on the implementation when a proof, the translator or the correspondence broke"""
    run(ctx, deep=True)


def replay(path):
    d = json.load(open(path, encoding="utf-8"))
    line = d["input"]
    if isinstance(line, dict) and "input" in line and "op" not in line:
        line = line["input"]
    a = impl(line)
    fails = []
    oracle(line, a, fails, {})
    print(json.dumps({"line": line, "implementation": a, "oracle": [[s, t] for s, _, t in fails]}, ensure_ascii=False))
    return 1 if fails else 0
