"""C09 — coordination: list punctuation, number/person/gender resolution, option propagation, subject agreement.

Model: lean/Pyrealb/Model/Coord.lean (mirrors Phrase.cpReal / Dependent.coordReal / findGenderNumberPerson / the CP and
coord branches of makeOptionMethod / the order of realization in Phrase.real and Dependent.real).
Theorems: lean/Pyrealb/Props/C09.lean.

Correspondence: every generated coordination is built through the real API in a fresh state (CP and coord notation, as
subject, object, attribute, shared-subject verbs, alone), realized, and compared with the model run on the abstract
members (token lists obtained by realizing each member alone, features read by getProp).
Oracle (independent of the model): the property text evaluated on the real output — member texts realized alone joined
with commas and the conjunction; the verb (and French attribute) form expected from the resolved person/number/gender,
obtained by realizing the verb alone with those features set explicitly.
"""
import contextlib
import io
import json
import multiprocessing
import os

from harness import core

META = {
    "ops": "coord,coordopt",
    "driver": "drv_coord",
    "translators": ["coordconsts"],
    "technique": "Lean 4 proof (induction on the member list, all n) + differential correspondence with the real API + direct oracle",
    "level_text": "Kernel-checked theorems about the model for member lists of every length: n=0/n=1 realization, comma/"
                  "conjunction placement equal to an index-based specification, number/person/gender resolution equal to "
                  "declarative specifications, option propagation to exactly the legal members (table lifted from the "
                  "source), subject agreement through the shared record (order of realization modelled). Clauses the "
                  "current code violates (nested coordinations, empty CP as subject, single nested coord) are `_refuted` "
                  "(concrete witness) + `_partial` (weakest side condition found).",
    "level_note": "Trusted: Lean kernel; the hand-written model is tied to the code by the differential check only; members are "
                  "abstract (token list, type, pe/n/g as getProp returns them, own `a` option); elision across members, `en`/`ba` "
                  "options on members, pronominalized coordinations and histories (C11) are outside the model.",
    "rule": "n = 0..6 members x conjunction and/or/but/et/ou/mais/none x member kinds (NP of each gender/number, bare N, Q, tonic "
            "pronouns of every person/number/gender, int and str person values, nested CP/coord, adjectives, VPs sharing a subject) x "
            "own after-punctuation x CP/coord notation x role (alone, subject, subject+French attribute, object, attribute, "
            "shared-subject verbs) x both languages; option propagation: every makeOptionMethod option x member-type lists "
            "(nested to depth 2); non-trivial = n >= 2 or an option call with at least one member",
    "assumptions": ["A_member: a member realized alone (fresh copy, same options) yields the tokens it yields inside the coordination "
                    "(no elision across member boundaries for the lexical items used; checked by the direct oracle on every case)",
                    "A_after: getBeforeAfterString(mark)['b'] is recomputed by the harness from rules-*.json / lexicon-*.json"],
    "trusted": ["Constituent.warn wrapped at run time to count warnings raised during realization"],
}

COMMA = ","
_STATE = {}

# --------------------------------------------------------------------------------------------- lexical pools
# (lemma, gender as the lexicon states it)  — words chosen so that no elision/contraction crosses a member boundary
NOUNS = {"en": [("cat", "n"), ("dog", "n"), ("boy", "m"), ("girl", "f"), ("bird", "n"), ("table", "n")],
         "fr": [("garçon", "m"), ("fille", "f"), ("table", "f"), ("souris", "f"), ("chat", "x"), ("père", "m")]}
DET = {"en": "the", "fr": "le"}
QS = ["John", "Mary"]
ADJS = {"en": ["big", "nice", "small", "young"], "fr": ["joli", "grand", "petit", "gentil"]}
VERBS = {"en": ["sleep", "be", "eat", "go"], "fr": ["dormir", "être", "manger", "finir"]}
VPVERBS = {"en": ["sleep", "eat", "run", "be"], "fr": ["dormir", "manger", "courir", "partir"]}
CONJ = {"en": ["and", "or", "but"], "fr": ["et", "ou", "mais"]}
AND = {"en": "and", "fr": "et"}
TONIC = {"en": "me", "fr": "moi"}
SUBJPRO = {"en": "I", "fr": "je"}
BE = {"en": "be", "fr": "être"}
SEE = {"en": "see", "fr": "voir"}
# coordinated verbs sharing a subject whose 2nd / 3rd … member is a copula with (coordinated) attributes
COP = {"en": ["be", "seem", "become", "remain"], "fr": ["être", "rester", "sembler", "devenir"]}
PPV = {"en": ["lose", "tire"], "fr": ["perdre", "finir"]}
# bare tonic / personal pronouns (no option at all): what they denote comes from their declension table
BARE = {"en": ["him", "her", "it", "us", "you", "them"],
        "fr": ["moi", "toi", "lui", "elle", "nous", "vous", "eux", "elles"]}
MARKS = ["!", ";", ",", ":", "."]
# verb-before-subject clauses: (variant, verb) per language.  plain: S(VP(V), CP) ; here: S(Adv, VP(V), CP) ;
# pc: French compound past with auxiliary être (the participle agrees) ; attr: S(VP(V être, A), CP) ;
# rel: NP(D, N, SP(Pro que/that, VP(V), CP))
VS = {"en": [("plain", "come"), ("plain", "be"), ("here", "come"), ("here", "go"), ("rel", "love"), ("rel", "see")],
      "fr": [("plain", "dormir"), ("plain", "venir"), ("pc", "arriver"), ("pc", "partir"), ("pc", "venir"), ("attr", "être"),
             ("rel", "habiter"), ("rel", "voir")]}
REL = {"en": ("house", "that"), "fr": ("maison", "que")}
HERE = {"en": "here", "fr": "ici"}
OPTION_VALUES = {"pe": 2, "n": "p", "g": "f", "t": "ps", "aux": "êt", "f": "co", "tn": "", "c": "acc", "pos": "post",
                 "pro": True, "ow": "p", "poss": True, "cap": True, "lier": True}
OPTION_PROP = {"ow": "own"}


def after_table(lang):
    """getBeforeAfterString(mark)['b'] recomputed from the data files"""
    key = ("aft", lang)
    if key not in _STATE:
        d = os.path.join(core.REPO, "src", "pyrealb", "data")
        rules = json.load(open(os.path.join(d, "rules-%s.json" % lang), encoding="utf-8"))["punctuation"]
        lex = json.load(open(os.path.join(d, "lexicon-%s.json" % lang), encoding="utf-8"))
        res = {}
        for m in MARKS:
            e = lex.get(m, {}).get("Pc")
            if e is None:
                res[m] = m
            elif "compl" in e:
                r = rules[e["tab"][0]]
                res[m] = r["b"] + m + r["a"]
            else:
                r = rules[e["tab"][0]]
                res[m] = r["b"] + m + r["a"]
        _STATE[key] = res
    return _STATE[key]


def _data(lang):
    key = ("data", lang)
    if key not in _STATE:
        d = os.path.join(core.REPO, "src", "pyrealb", "data")
        _STATE[key] = (json.load(open(os.path.join(d, "lexicon-%s.json" % lang), encoding="utf-8")),
                       json.load(open(os.path.join(d, "rules-%s.json" % lang), encoding="utf-8")))
    return _STATE[key]


def bare_table(lang, lemma):
    """(table id, rows) of a pronoun — the table id is the only thing taken from the lexicon entry"""
    lex, rules = _data(lang)
    tab = lex[lemma]["Pro"]["tab"]
    return tab, rules["declension"][tab]


def bare_features(lang, lemma):
    """(pe, plural?, gender) of a bare pronoun as its DECLENSION TABLE says: the row whose form is the lemma"""
    tab, d = bare_table(lang, lemma)
    ending = d["ending"]
    stem = lemma[:len(lemma) - len(ending)] if ending and lemma.endswith(ending) else lemma
    for r in d["declension"]:
        if stem + r["val"] == lemma:
            g = r.get("g")
            return r.get("pe", 3), r.get("n") == "p", g if g in ("m", "f") else None
    raise core.Infra("no row of table %s realizes %r" % (tab, lemma))


def bare_lexicon_gap(lang, lemma):
    """features on which the lexicon entry (+ defaults, as Terminal.setLemma computes them) disagrees with the row of
    the declension table that spells the lemma — used only to LABEL a failure, never to decide it"""
    lex, _ = _data(lang)
    e = lex[lemma]["Pro"]
    tab, d = bare_table(lang, lemma)
    rows = d["declension"]
    pes = [r.get("pe") for r in rows]
    upe = pes[0] if pes and pes[0] is not None and all(x == pes[0] for x in pes) else None
    epe = e.get("pe", upe if (upe is not None and upe != 3) else 3)
    pe, pl, g = bare_features(lang, lemma)
    gaps = []
    if epe != pe:
        gaps.append("%s.pe" % tab)
    if (e.get("n", "s") == "p") != pl:
        gaps.append("%s.n" % tab)
    if lang == "fr" and g is not None and e.get("g", "m") != g:
        gaps.append("%s.g" % tab)
    return gaps


# --------------------------------------------------------------------------------------------- the real library

def lib():
    if "lib" not in _STATE:
        core.ensure_repo_on_path()
        import pyrealb
        from pyrealb.Constituent import Constituent
        orig = Constituent.warn
        cnt = {"n": 0}

        def counting(self, *a):
            cnt["n"] += 1
            return orig(self, *a)
        Constituent.warn = counting
        Constituent.exceptionOnWarning = False
        _STATE["lib"] = (pyrealb, cnt)
    return _STATE["lib"]


def set_lang(P, lang):
    (P.loadEn if lang == "en" else P.loadFr)()


def toks_of(x):
    return [t.realization for t in x.real()]


def apply_a(obj, marks):
    if marks is not None:
        for m in marks:
            obj.a(m)
    return obj


def build_member(P, lang, nota, m, rel, ctx, with_a=True):
    """a fresh pyrealb object for member spec m.  ctx = features of the subject for adjectives / shared verbs"""
    t = m["t"]
    dep = getattr(P, rel) if nota == "dep" else None
    if t == "np":
        noun = NOUNS[lang][m["w"]][0]
        if nota == "cp":
            o = P.NP(P.D(DET[lang]), P.N(noun))
        else:
            o = dep(P.N(noun), P.det(P.D(DET[lang])))
        if m.get("n"):
            o.n(m["n"])
    elif t == "n":
        noun = NOUNS[lang][m["w"]][0]
        o = P.N(noun) if nota == "cp" else dep(P.N(noun))
        if m.get("n"):
            o.n(m["n"])
    elif t == "q":
        o = P.Q(QS[m["w"]]) if nota == "cp" else dep(P.Q(QS[m["w"]]))
    elif t == "pro":
        p = P.Pro(TONIC[lang]).pe(m["pe"])
        if m.get("n"):
            p.n(m["n"])
        if m.get("g"):
            p.g(m["g"])
        o = p if nota == "cp" else dep(p)
    elif t == "bpro":
        o = P.Pro(m["lem"]) if nota == "cp" else dep(P.Pro(m["lem"]))
    elif t == "adj":
        a = P.A(ADJS[lang][m["w"]])
        if ctx and ctx.get("explicit"):
            if ctx.get("g"):
                a.g(ctx["g"])
            if ctx.get("n"):
                a.n(ctx["n"])
            if ctx.get("pe"):
                a.pe(ctx["pe"])
        o = a if nota == "cp" else dep(a)
    elif t == "vp":
        v = P.V(VPVERBS[lang][m["w"]])
        if ctx and ctx.get("explicit"):
            if ctx.get("pe"):
                v.pe(ctx["pe"])
            if ctx.get("n"):
                v.n(ctx["n"])
        o = P.VP(v) if nota == "cp" else dep(v)
    elif t == "vpa":
        explicit = bool(ctx and ctx.get("explicit"))
        v = P.V(COP[lang][m["v"]])
        if explicit:
            if ctx.get("pe"):
                v.pe(ctx["pe"])
            if ctx.get("n"):
                v.n(ctx["n"])
        items = []
        for kind, w in m["adjs"]:
            it = P.A(ADJS[lang][w]) if kind == "A" else P.V(PPV[lang][w]).t("pp")
            if explicit:
                if ctx.get("g"):
                    it.g(ctx["g"])
                if ctx.get("n"):
                    it.n(ctx["n"])
            items.append(it)
        att = items[0] if len(items) == 1 else P.CP(P.C(m["aconj"]), *items)
        if nota != "cp":
            raise core.Infra("vpa members exist in CP notation only")
        o = P.VP(v, att)
    elif t == "nest":
        kids = [build_member(P, lang, nota, k, rel, ctx) for k in m["ms"]]
        if nota == "cp":
            args = list(kids)
            if m["conj"] is not None:
                args.insert(0, P.C(m["conj"]))
            o = P.CP(*args)
        else:
            o = P.coord(P.C(m["conj"]) if m["conj"] is not None else P.Q(""), *kids)
    else:
        raise core.Infra("unknown member spec %r" % (m,))
    if with_a:
        apply_a(o, m.get("a"))
    return o


def kind_of(nota, o):
    return o.constType if nota == "cp" else o.terminal.constType


def pe_json(v):
    return v if (v is None or isinstance(v, (int, str))) else str(v)


def member_abstract(P, lang, nota, m, rel, ctx):
    """what the model is given for one member: tokens alone (without own `a`), type, features as getProp reads them"""
    key = ("mem", lang, nota, rel, core.canon(m), core.canon(ctx))
    if key in _STATE:
        return _STATE[key]
    c2 = dict(ctx or {}, explicit=True)
    o = build_member(P, lang, nota, m, rel, c2, with_a=False)
    d = {"kind": kind_of(nota, o), "rel": o.constType if nota == "dep" else "", "a": m.get("a")}
    if m["t"] == "nest" and nota == "dep":
        # coordReal() tokens (root special case) on one copy; Dependent.real() tokens on another
        d["toks"] = toks_of(o)
        o2 = build_member(P, lang, nota, m, rel, c2, with_a=False)
        o2.parentConst = P.Q("*dummy*")
        d["alt"] = toks_of(o2)
        feat = o2
    else:
        d["toks"] = toks_of(o)
        feat = o
    d["pe"], d["n"], d["g"] = pe_json(feat.getProp("pe")), feat.getProp("n"), feat.getProp("g")
    if nota == "dep" and m["t"] != "nest":
        tt = feat.terminal
        if (pe_json(tt.getProp("pe")), tt.getProp("n"), tt.getProp("g")) != (d["pe"], d["n"], d["g"]):
            raise core.Infra("dependent and terminal disagree on pe/n/g for %r" % (m,))
    _STATE[key] = d
    return d


def alone_text(P, lang, nota, m, rel, ctx, comma=False):
    """the member realized alone WITH its own options (for the oracle); comma=True: the after-string of "," appended
    to its last token"""
    key = ("txt", lang, nota, rel, core.canon(m), core.canon(ctx))
    if key not in _STATE:
        c2 = dict(ctx or {}, explicit=True)
        _STATE[key] = toks_of(build_member(P, lang, nota, m, rel, c2))
    toks = list(_STATE[key])
    if comma and toks:
        toks[-1] += after_table(lang)[COMMA]
    return norm(" ".join(toks))


def norm(x):
    return " ".join(x.split())


def verb_forms(P, lang, verb):
    key = ("vf", lang, verb)
    if key not in _STATE:
        r = {}
        for pe in (1, 2, 3):
            for pl in (False, True):
                r["%d%s" % (pe, "p" if pl else "s")] = toks_of(P.V(verb).pe(pe).n("p" if pl else "s"))
        _STATE[key] = r
    return _STATE[key]


def vs_verb(P, case, feats=None):
    """the verb (terminal) of a verb-before-subject clause; feats = (pe, plural?, g) set explicitly, or None"""
    v = P.V(case["verb"])
    if case["vs"] == "pc":
        v.t("pc")
    if feats is not None:
        pe, pl, g = feats
        v.pe(pe).n("p" if pl else "s")
        if g is not None:
            v.g(g)
    return v


def vs_forms(P, case):
    """tokens of the verb group (verb [+ attribute]) alone for every (person, number, gender)"""
    lang = case["lang"]
    key = ("vsf", lang, case["vs"], case["verb"], case.get("adj"))
    if key not in _STATE:
        r = {}
        for pe in (1, 2, 3):
            for pl in (False, True):
                for g in (None, "m", "f", "x", "n"):
                    t = toks_of(vs_verb(P, case, (pe, pl, g)))
                    if case["vs"] == "attr":
                        t = t + adj_forms(P, lang, case["adj"])["%s%s" % (g or "-", "p" if pl else "s")]
                    r["%d%s%s" % (pe, "p" if pl else "s", g or "-")] = t
        _STATE[key] = r
    return _STATE[key]


def vs_build(P, case, co):
    """the clause around the coordination `co` (or around a plain NP when co is None: used for the prefix)"""
    lang, nota = case["lang"], case["nota"]
    v = vs_verb(P, case)
    if nota == "dep":
        return P.root(v, co.pos("post")), v
    vs = case["vs"]
    if vs == "plain" or vs == "pc":
        return P.S(P.VP(v), co), v
    if vs == "here":
        return P.S(P.Adv(HERE[lang]), P.VP(v), co), v
    if vs == "attr":
        return P.S(P.VP(v, P.A(case["adj"])), co), v
    noun, rel = REL[lang]
    return P.NP(P.D(DET[lang]), P.N(noun), P.SP(P.Pro(rel), P.VP(v), co)), v


def vs_prefix(P, case):
    """tokens before the verb group"""
    lang = case["lang"]
    key = ("vsp", lang, case["nota"], case["vs"], case["verb"])
    if key not in _STATE:
        if case["nota"] == "dep" or case["vs"] in ("plain", "pc", "attr"):
            _STATE[key] = []
        elif case["vs"] == "here":
            _STATE[key] = [HERE[lang]]
        else:
            top, _ = vs_build(P, case, P.NP(P.D(DET[lang]), P.N(NOUNS[lang][0][0])))
            _STATE[key] = toks_of(top)[:3]      # le/la N que|qu' ; the N that
    return _STATE[key]


def adj_forms(P, lang, adj):
    key = ("af", lang, adj)
    if key not in _STATE:
        r = {}
        for g in (None, "m", "f", "x", "n"):
            for pl in (False, True):
                a = P.A(adj).n("p" if pl else "s")
                if g is not None:
                    a.g(g)
                r["%s%s" % (g or "-", "p" if pl else "s")] = toks_of(a)
        _STATE[key] = r
    return _STATE[key]


def rel_of(case):
    if case["nota"] != "dep":
        return ""
    return case.get("rel") or {"subj": "subj", "subjattr": "subj", "vsubj": "subj", "obj": "comp", "attr": "comp", "vps": "comp",
                               "alone": "subj"}[case["role"]]


def subject_ctx(case):
    """features of the explicit subject (roles obj / attr / vps)"""
    s = case.get("subj")
    if not s:
        return None
    if s["t"] == "cp":
        # a coordinated subject: person / number / gender as the PROPERTY resolves them
        pe, pl, g, _ = resolve(case["lang"], s["conj"], [prop_features(case["lang"], m) for m in s["ms"]])
        return {"pe": pe, "n": "p" if pl else "s", "g": g}
    return {"pe": s["pe"], "n": s["n"], "g": s.get("g")}


def build_subject(P, lang, nota, s):
    if s["t"] == "cp":
        return P.CP(P.C(s["conj"]), *[build_member(P, lang, "cp", m, "", None) for m in s["ms"]])
    if s["t"] == "pro":
        p = P.Pro(SUBJPRO[lang]).pe(s["pe"]).n(s["n"])
        if s.get("g"):
            p.g(s["g"])
        return p if nota == "cp" else P.subj(p)
    noun = NOUNS[lang][s["w"]][0]
    if nota == "cp":
        return P.NP(P.D(DET[lang]), P.N(noun)).n(s["n"])
    return P.subj(P.N(noun), P.det(P.D(DET[lang]))).n(s["n"])


def build_case(P, case):
    """the whole structure; returns (top, coordination object, verb terminal or None)"""
    lang, nota, role = case["lang"], case["nota"], case["role"]
    rel = rel_of(case)
    ctx = subject_ctx(case)
    members = []
    for i, m in enumerate(case["members"]):
        r = rel
        if nota == "dep" and case.get("badrel") is not None and case["badrel"][0] == i:
            r = case["badrel"][1]
        members.append(build_member(P, lang, nota, m, r, ctx))
    conj = case["conj"]
    later = []
    if case.get("incr") is not None:
        # the coordination is completed with .add() once it is already part of the clause
        members, later = members[:case["incr"]], members[case["incr"]:]
    if nota == "cp":
        args = list(members)
        if conj is not None:
            args.insert(min(case.get("cpos", 0), len(args)), P.C(conj))
        co = P.CP(*args)
    else:
        tk = case.get("tkind", "C")
        term = P.Q("") if conj is None else (P.C(conj) if tk == "C" else getattr(P, tk)(conj))
        co = P.coord(term, *members)
    top, co, v = build_clause(P, case, co)
    for m in later:
        co.add(m)
    return top, co, v


def build_clause(P, case, co):
    lang, nota, role = case["lang"], case["nota"], case["role"]
    v = None
    if role == "alone":
        top = co
    elif role in ("subj", "subjattr"):
        v = P.V(case["verb"])
        if nota == "cp":
            top = P.S(co, P.VP(v, P.A(case["adj"])) if role == "subjattr" else P.VP(v))
        else:
            top = P.root(v, co, P.comp(P.A(case["adj"]))) if role == "subjattr" else P.root(v, co)
    elif role == "vsubj":
        top, v = vs_build(P, case, co)
    elif role in ("obj", "attr"):
        v = P.V(case["verb"])
        su = build_subject(P, lang, nota, case["subj"])
        top = P.S(su, P.VP(v, co)) if nota == "cp" else P.root(v, su, co)
    elif role == "vps":
        if nota == "cp":
            top = P.S(build_subject(P, lang, nota, case["subj"]), co)
        else:
            s = case["subj"]
            top = P.root(P.N(NOUNS[lang][s["w"]][0]), P.det(P.D(DET[lang])), co).n(s["n"])
    else:
        raise core.Infra("role " + role)
    return top, co, v


def prefix_tokens(P, case):
    """tokens of the clause around the coordination (roles obj/attr/vps), built without it"""
    lang, nota, role = case["lang"], case["nota"], case["role"]
    key = ("pre", lang, nota, role, core.canon(case.get("subj")), case.get("verb"))
    if key not in _STATE:
        if role in ("obj", "attr"):
            su = build_subject(P, lang, nota, case["subj"])
            v = P.V(case["verb"])
            top = P.S(su, P.VP(v)) if nota == "cp" else P.root(v, su)
            st = toks_of(build_subject(P, lang, nota, case["subj"]))
            _STATE[key] = (st, toks_of(top))
        else:
            s = case["subj"]
            if nota == "cp":
                st = toks_of(build_subject(P, lang, nota, s))
            else:
                st = toks_of(P.root(P.N(NOUNS[lang][s["w"]][0]), P.det(P.D(DET[lang]))).n(s["n"]))
            _STATE[key] = (st, st)
    return _STATE[key]


# --------------------------------------------------------------------------------------------- one case: impl + model line + oracle

def impl_case(case):
    """returns (model_line, impl_answer, extras for the comparison, oracle failures)"""
    P, cnt = lib()
    lang, nota, role = case["lang"], case["nota"], case["role"]
    err = io.StringIO()
    with contextlib.redirect_stderr(err):
        set_lang(P, lang)
        rel = rel_of(case)
        ctx = subject_ctx(case)
        mem = []
        for i, m in enumerate(case["members"]):
            r = rel
            if nota == "dep" and case.get("badrel") is not None and case["badrel"][0] == i:
                r = case["badrel"][1]
            mem.append(member_abstract(P, lang, nota, m, r, ctx))
        aft = after_table(lang)
        line = {"op": "coord", "nota": nota, "lang": lang, "members": mem,
                "aft": [{"m": k, "s": v} for k, v in sorted(aft.items())]}
        conj = case["conj"]
        if nota == "cp":
            line["conj"] = None if conj is None else {"lemma": conj, "toks": [conj]}
        else:
            line["conj"] = {"kind": "Q", "lemma": "", "toks": [""]} if conj is None else \
                {"kind": case.get("tkind", "C"), "lemma": conj, "toks": [conj]}
        extras = {}
        if role in ("subj", "subjattr"):
            line["role"] = "subj"
            extras["vf"] = verb_forms(P, lang, case["verb"])
            if role == "subjattr":
                extras["af"] = adj_forms(P, lang, case["adj"])
            # the verb's own record: what it reads when nothing is linked (coord: always the shared record)
            v0 = P.V(case["verb"])
            line["r0"] = {"pe": pe_json(v0.getProp("pe")), "n": v0.getProp("n"), "g": v0.getProp("g")}
        elif role == "vsubj":
            line["role"] = "subj"
            extras["vsf"] = vs_forms(P, case)
            extras["prefix"] = vs_prefix(P, case)
            v0 = vs_verb(P, case)
            line["r0"] = {"pe": pe_json(v0.getProp("pe")), "n": v0.getProp("n"), "g": v0.getProp("g")}
        elif role == "attr" and nota == "dep":
            line["role"] = "attrshare"
            s0 = build_subject(P, lang, nota, case["subj"])
            line["r0"] = {"pe": pe_json(s0.getProp("pe")), "n": s0.getProp("n"), "g": s0.getProp("g")}
            extras["vf"] = verb_forms(P, lang, case["verb"])
            extras["subjtoks"] = prefix_tokens(P, case)[0]
        elif role == "vps" and nota == "dep":
            line["role"] = "other"
            s = case["subj"]
            h = P.root(P.N(NOUNS[lang][s["w"]][0]), P.det(P.D(DET[lang]))).n(s["n"])
            line["r0"] = {"pe": pe_json(h.getProp("pe")), "n": h.getProp("n"), "g": h.getProp("g")}
            extras["prefix"] = prefix_tokens(P, case)[1]
        else:
            line["role"] = "other"
            if role != "alone":
                extras["prefix"] = prefix_tokens(P, case)[1]
            if nota == "dep":
                # a coord keeps the record of its terminal when the terminal has one (Q, N … — not C)
                tk = case.get("tkind", "C")
                q0 = P.Q("") if conj is None else getattr(P, tk)(conj)
                if hasattr(q0, "peng"):
                    line["r0"] = {"pe": pe_json(q0.getProp("pe")), "n": q0.getProp("n"), "g": q0.getProp("g")}
        if role in ("attr", "vps") and line["role"] == "other":
            extras["norec"] = True
        if nota == "dep" and line["role"] == "other" and any(m["t"] == "nest" for m in case["members"]):
            # a nested coord shares the record of an outer coord that keeps a record of its own; nothing reads it
            extras["norec"] = True
        # ---- the real thing
        ans = {}
        top = co = v = None
        try:
            top, co, v = build_case(P, case)
            cnt["n"] = 0
            ans["sent"] = toks_of(top)
            ans["w"] = cnt["n"]
            src = v if line["role"] in ("subj", "attrshare") else co
            ans["rec"] = {"pe": pe_json(src.getProp("pe")), "n": src.getProp("n"), "g": src.getProp("g")}
            if line["role"] in ("subj", "attrshare"):
                pe = v.getProp("pe")
                ans["verb"] = [3 if pe is None else int(pe), v.getProp("n") == "p"]
        except core.Infra:
            raise
        except Exception as e:  # noqa
            ans = {"err": type(e).__name__}
        fails = oracle_case(P, case, ans)
    return line, ans, extras, fails


def model_sentence(case, line, m, extras):
    """composes the model's answer into what is compared with the implementation"""
    if "err" in m:
        return {"err": m["err"]}
    role = line["role"]
    out = {"w": m["w"], "rec": m["rec"]}
    if role == "subj" and "vsf" in extras:
        # the verb group comes first; it was nevertheless realized AFTER the coordination wrote the shared record
        g = m["rec"]["g"]
        out["sent"] = list(extras["prefix"]) + extras["vsf"]["%d%s%s" % (m["pe"], "p" if m["pl"] else "s", g or "-")] \
            + list(m["toks"])
        out["verb"] = [m["pe"], m["pl"]]
    elif role == "subj":
        sent = list(m["toks"]) + extras["vf"]["%d%s" % (m["pe"], "p" if m["pl"] else "s")]
        if "af" in extras:
            g = m["rec"]["g"]
            sent += extras["af"]["%s%s" % (g or "-", "p" if m["pl"] else "s")]
        out["sent"] = sent
        out["verb"] = [m["pe"], m["pl"]]
    elif role == "attrshare":
        # the subject's own tokens are left out of the comparison (je/j' before a wrongly conjugated verb is C06's)
        out["sent"] = extras["vf"]["%d%s" % (m["pe"], "p" if m["pl"] else "s")] + list(m["toks"])
        out["verb"] = [m["pe"], m["pl"]]
    else:
        out["sent"] = list(extras.get("prefix", [])) + list(m["toks"])
        if extras.get("norec"):
            out["rec"] = None
    return out


def impl_compare_form(case, line, a, extras):
    if "err" in a:
        return {"err": a["err"]}
    if extras.get("norec"):
        a = dict(a, rec=None)
    if "subjtoks" in extras:
        a = dict(a, sent=a["sent"][len(extras["subjtoks"]):])
    return a


# --------------------------------------------------------------------------------------------- the direct oracle

def is_and(lang, conj):
    return conj == AND[lang]


def prop_features(lang, m):
    """(pe, plural?, gender, nominal?) of a member as the PROPERTY resolves it (nested: recursively)"""
    t = m["t"]
    if t in ("np", "n"):
        return 3, m.get("n") == "p", NOUNS[lang][m["w"]][1], True
    if t == "q":
        return 3, False, None, True
    if t == "pro":
        return int(m["pe"]), m.get("n") == "p", m.get("g"), True
    if t == "bpro":
        return bare_features(lang, m["lem"]) + (True,)
    if t == "nest":
        fs = [prop_features(lang, k) for k in m["ms"]]
        return resolve(lang, m["conj"], fs)
    return 3, False, None, False


def resolve(lang, conj, fs):
    if not fs:
        return 3, False, None, True
    pe = min(f[0] for f in fs)
    pl = (len(fs) >= 2 and is_and(lang, conj)) or any(f[1] for f in fs)
    gs = [f[2] for f in fs]
    # gender as the property states it: masculine as soon as one member is; feminine when all are; otherwise unknown
    g = "m" if "m" in gs else ("f" if all(x == "f" for x in gs) else None)
    return pe, pl, g, all(f[3] for f in fs)


def has_nested(case):
    return any(m["t"] == "nest" for m in case["members"])


def expected_coord_text(P, case):
    lang, nota = case["lang"], case["nota"]
    rel = rel_of(case)
    ctx = subject_ctx(case)
    texts = [alone_text(P, lang, nota, m, rel, ctx) for m in case["members"]]
    ctexts = [alone_text(P, lang, nota, m, rel, ctx, comma=True) for m in case["members"]]
    n = len(texts)
    if n == 0:
        return ""
    if n == 1:
        return texts[0]
    conj = case["conj"]
    parts = []
    for i, t in enumerate(texts):
        if i == n - 1 and conj is not None:
            parts.append(conj)
        last_with_comma = n - 2 if conj is not None else n - 1
        own = case["members"][i].get("a") or []
        # a member that realizes as nothing (an empty nested coordination) contributes nothing, not even a comma
        parts.append(ctexts[i] if (i < last_with_comma and COMMA not in own and t != "") else t)
    return norm(" ".join(p for p in parts if p != ""))


def unset_number_participle(case):
    """S(CP subject that resolves to singular without writing a number, CP(… VP(copula, participle) …)): Phrase.real
    realizes the verbs' CP in its pre-pass, before the number of the shared record is defaulted to "s"; a French past
    participle realized with no number at all comes out plural"""
    su = case.get("subj") or {}
    if su.get("t") != "cp" or len(su["ms"]) < 2 or subject_ctx(case)["n"] == "p":
        return False
    return any(m["t"] == "vpa" and any(k == "pp" for k, _ in m["adjs"]) for m in case["members"])


def sig(clause, cause, case):
    return "%s:%s:%s:%s" % (clause, cause, case["lang"], case["nota"])


def punct_cause(case):
    n = len(case["members"])
    if case["nota"] == "dep" and n == 1 and case["members"][0]["t"] == "nest":
        return "single-nested-coord-realized-as-plain-dependent"
    return "plain"


def bare_gaps(lang, ms):
    """table.feature labels of the bare pronouns (at any depth) whose lexicon features disagree with their table"""
    res = []
    for m in ms:
        if m["t"] == "bpro":
            res += bare_lexicon_gap(lang, m["lem"])
        elif m["t"] == "nest":
            res += bare_gaps(lang, m["ms"])
    return res


def agree_cause(case):
    n = len(case["members"])
    if case["role"] == "attr":
        return "plain"
    # root cause first: a bare pronoun whose lexicon entry disagrees with its declension table, whatever the shape
    gaps = sorted(bare_gaps(case["lang"], case["members"]))
    if gaps:
        return "bare-pronoun-" + gaps[0]
    if has_nested(case):
        return "single-nested" if n == 1 else "nested-coordination-not-counted"
    return "plain"


def crash_cause(case, err):
    ms = case["members"]
    if err == "AttributeError" and case["nota"] == "cp" and not ms and case["conj"] is None and case["role"] in ("subj", "subjattr", "vsubj"):
        return "AttributeError-empty-CP-as-subject"
    return err + "-plain"


def oracle_case(P, case, ans):
    """the property stated on the implementation's output; returns [(signature, detail)]"""
    if case.get("malformed"):
        return []
    fails = []
    lang, nota, role = case["lang"], case["nota"], case["role"]
    if "err" in ans:
        return [(sig("crash", crash_cause(case, ans["err"]), case), "raised " + ans["err"])]
    got = norm(" ".join(ans["sent"]))
    ctext = expected_coord_text(P, case)
    fs = [prop_features(lang, m) for m in case["members"]]
    pe, pl, g, nominal = resolve(lang, case["conj"], fs)
    if len(fs) == 1:
        pe, pl, g = fs[0][0], fs[0][1], fs[0][2]
    if role in ("subj", "subjattr"):
        vf = verb_forms(P, lang, case["verb"])
        # 1. punctuation: the sentence starts with the coordination text
        if not (got == ctext or got.startswith(ctext + " ") or ctext == ""):
            fails.append((sig("punct", punct_cause(case), case), "expected the sentence to start with %r, got %r" % (ctext, got)))
            return fails
        if not nominal:
            return fails
        rest = got[len(ctext):].strip()
        want = norm(" ".join(vf["%d%s" % (pe, "p" if pl else "s")]))
        if role == "subjattr":
            gs = [f[2] for f in fs]
            if all(x in ("m", "f") for x in gs) and gs:
                af = adj_forms(P, lang, case["adj"])
                want = norm(want + " " + " ".join(af["%s%s" % (g, "p" if pl else "s")]))
                if rest != want:
                    fails.append((sig("agree", agree_cause(case), case), "after %r expected %r got %r" % (ctext, want, rest)))
            elif not rest.startswith(want + " ") and rest != want:
                fails.append((sig("agree", agree_cause(case), case), "after %r expected verb %r got %r" % (ctext, want, rest)))
        elif rest != want:
            fails.append((sig("agree", agree_cause(case), case), "after %r expected %r got %r" % (ctext, want, rest)))
    elif role == "vsubj":
        pre = norm(" ".join(vs_prefix(P, case)))
        if not (got == ctext or got.endswith(" " + ctext) or ctext == ""):
            fails.append((sig("punct", punct_cause(case), case), "expected the clause to end with %r, got %r" % (ctext, got)))
            return fails
        if not nominal:
            return fails
        mid = got[:len(got) - len(ctext)].strip() if ctext else got
        if not (mid == pre or mid.startswith(pre + " ") or pre == ""):
            fails.append((sig("punct", punct_cause(case), case), "expected the clause to start with %r, got %r" % (pre, got)))
            return fails
        mid = mid[len(pre):].strip()
        gs = [f[2] for f in fs]
        known_g = bool(gs) and all(x in ("m", "f") for x in gs)
        forms = vs_forms(P, case)
        if case["vs"] in ("pc", "attr") and not known_g:
            # gender not determined by the property: any gender, but person and number as specified
            wants = {norm(" ".join(forms["%d%s%s" % (pe, "p" if pl else "s", x)])) for x in ("-", "m", "f", "x", "n")}
        else:
            wants = {norm(" ".join(forms["%d%s%s" % (pe, "p" if pl else "s", (g if known_g else None) or "-")]))}
        if mid not in wants:
            cause = agree_cause(case)
            fails.append((sig("agree", "verb-before-subject-plain" if cause == "plain" else cause, case),
                          "before %r expected %r got %r" % (ctext, sorted(wants), mid)))
    elif role == "alone":
        if got != ctext:
            fails.append((sig("punct", punct_cause(case), case), "expected %r got %r" % (ctext, got)))
    else:
        s = case["subj"]
        if role == "vps":
            pre = norm(" ".join(prefix_tokens(P, case)[0]))
        else:
            vf = verb_forms(P, lang, case["verb"])
            pre = norm(" ".join(prefix_tokens(P, case)[0] + vf["%d%s" % (s["pe"], "p" if s["n"] == "p" else "s")]))
        want = norm(pre + " " + ctext)
        if got != want and role == "vps" and got.startswith(pre + " ") and any(m["t"] == "vpa" for m in case["members"]):
            cause = "coordinated-verbs-participle-number-unset" if unset_number_participle(case) else \
                "coordinated-verbs-attributes-plain"
            fails.append((sig("agree", cause, case), "expected %r got %r" % (want, got)))
        elif got != want:
            if got.endswith(ctext) and norm(got[:len(got) - len(ctext)]) != pre:
                fails.append((sig("agree", agree_cause(case), case), "expected %r got %r" % (want, got)))
            else:
                fails.append((sig("punct", punct_cause(case), case), "expected %r got %r" % (want, got)))
    return fails


# --------------------------------------------------------------------------------------------- option propagation

def build_tree(P, lang, nota, tree, rel="subj"):
    """tree: kind string | ["CP", conj, [subtrees]]"""
    if isinstance(tree, list):
        kids = [build_tree(P, lang, nota, t, rel) for t in tree[2]]
        if nota == "cp":
            args = ([P.C(tree[1])] if tree[1] else []) + kids
            return P.CP(*args)
        return P.coord(P.C(tree[1]) if tree[1] else P.Q(""), *kids)
    k = tree
    mk = {
        "NP": lambda: P.NP(P.D(DET[lang]), P.N(NOUNS[lang][0][0])),
        "N": lambda: P.N(NOUNS[lang][1][0]),
        "Pro": lambda: P.Pro(TONIC[lang]),
        "A": lambda: P.A(ADJS[lang][0]),
        "AP": lambda: P.AP(P.A(ADJS[lang][1])),
        "V": lambda: P.V(VERBS[lang][0]),
        "VP": lambda: P.VP(P.V(VERBS[lang][2])),
        "Adv": lambda: P.Adv("now" if lang == "en" else "maintenant"),
        "D": lambda: P.D(DET[lang]),
        "Q": lambda: P.Q("John"),
        "NO": lambda: P.NO(3),
        "PP": lambda: P.PP(P.P("with" if lang == "en" else "avec"), P.NP(P.D(DET[lang]), P.N(NOUNS[lang][0][0]))),
        "S": lambda: P.S(P.Pro(SUBJPRO[lang]), P.VP(P.V(VERBS[lang][0]))),
        "SP": lambda: P.SP(P.Pro("who" if lang == "en" else "qui"), P.VP(P.V(VERBS[lang][0]))),
    }
    if nota == "cp":
        return mk[k]()
    t = mk[k]()
    if not hasattr(t, "lemma"):
        raise core.Infra("dependency notation needs terminal kinds, got " + k)
    return getattr(P, rel)(t)


def tree_kinds(nota, tree):
    res = []
    if nota == "cp" and tree[1]:
        res.append("C")
    for t in tree[2]:
        res.append(("CP" if nota == "cp" else "C") if isinstance(t, list) else t)
    return res


def received(nota, obj, prop, val):
    tgt = obj if nota == "cp" else obj.terminal
    return prop in tgt.props and tgt.props[prop] == val


def impl_opt(case):
    """returns (model lines for each coordination node, impl answer, oracle failures)"""
    P, cnt = lib()
    lang, nota, name, tree = case["lang"], case["nota"], case["name"], case["tree"]
    val = OPTION_VALUES[name]
    prop = OPTION_PROP.get(name, name)
    err = io.StringIO()
    fails = []
    with contextlib.redirect_stderr(err):
        set_lang(P, lang)
        co = build_tree(P, lang, nota, tree)
        try:
            cnt["n"] = 0
            getattr(co, name)(val)
            nwarn = cnt["n"]
        except Exception as e:  # noqa
            return [], {"err": type(e).__name__}, [(sig("crash", type(e).__name__ + "-option", case), "option call raised")]

        def walk(obj, tr, path, out):
            elems = obj.elements if nota == "cp" else obj.dependents
            off = 1 if (nota == "cp" and tr[1]) else 0
            if off:
                out[path + "/C"] = received("cp", elems[0], prop, val)
            for i, t in enumerate(tr[2]):
                e = elems[i + off]
                p = "%s/%d" % (path, i)
                if isinstance(t, list):
                    walk(e, t, p, out)
                else:
                    out[p] = received(nota, e, prop, val)
        got = {}
        walk(co, tree, "", got)
        ans = {"recv": got}
        if name not in ("cap", "lier", "pos"):
            # a propagated option is only ever handed to members it is legal for: nobody warns
            ans["w"] = nwarn
            if nwarn:
                fails.append((sig("option", "%s-handed-to-an-illegal-member" % name, case),
                              "%d warning(s) while propagating .%s() through %r" % (nwarn, name, tree)))
        # oracle: a leaf member receives the option iff the option is legal for it (direct call accepted, no warning)
        if name not in ("cap", "lier", "pos"):
            for i, t in enumerate(tree[2]):
                if isinstance(t, list):
                    continue
                fresh = build_tree(P, lang, nota, t)
                tgt = fresh if nota == "cp" else fresh.terminal
                cnt["n"] = 0
                getattr(tgt, name)(val)
                legal = cnt["n"] == 0 and prop in tgt.props
                if got["/%d" % i] != legal:
                    fails.append((sig("option", "%s-on-%s" % (name, t), case),
                                  "member %d (%s): legal=%s received=%s" % (i, t, legal, got["/%d" % i])))
        # oracle 2 (nested coordinations): the option applied to the coordination realizes like the same tree with
        # the option applied explicitly to every leaf member (at any depth) it is legal for
        if name not in ("cap", "lier", "pos") and any(isinstance(t, list) for t in tree[2]):
            try:
                legal_kind = {}

                def legal(k):
                    if k not in legal_kind:
                        fresh = build_tree(P, lang, nota, k)
                        tgt = fresh if nota == "cp" else fresh.terminal
                        cnt["n"] = 0
                        getattr(tgt, name)(val)
                        legal_kind[k] = cnt["n"] == 0 and prop in tgt.props
                    return legal_kind[k]

                def apply_leaves(obj, tr):
                    elems = obj.elements if nota == "cp" else obj.dependents
                    off = 1 if (nota == "cp" and tr[1]) else 0
                    for i, t in enumerate(tr[2]):
                        e = elems[i + off]
                        if isinstance(t, list):
                            apply_leaves(e, t)
                        elif legal(t):
                            getattr(e if nota == "cp" else e.terminal, name)(val)

                def nested_leaves(tr, depth=0):
                    res = []
                    for t in tr[2]:
                        if isinstance(t, list):
                            res += nested_leaves(t, depth + 1)
                        elif depth >= 1:
                            res.append(t)
                    return res
                if any(legal(k) for k in nested_leaves(tree)):
                    a1 = build_tree(P, lang, nota, tree)
                    getattr(a1, name)(val)
                    r1 = toks_of(a1)
                    a2 = build_tree(P, lang, nota, tree)
                    apply_leaves(a2, tree)
                    r2 = toks_of(a2)
                    if r1 != r2:
                        fails.append((sig("option", "%s-does-not-reach-the-members-of-a-nested-coordination" % name, case),
                                      "option on the coordination: %r ; on every legal leaf: %r" % (" ".join(r1), " ".join(r2))))
            except core.Infra:
                raise
            except Exception:  # noqa  (realizing arbitrary member kinds is C07's business)
                pass
    return None, ans, fails


def model_opt_expected(case, run_model):
    """expected `recv` map by recursion over the tree, each level answered by the model op `coordopt`"""
    nota, name, tree = case["nota"], case["name"], case["tree"]
    out = {}

    def walk(tr, path, called):
        kinds = tree_kinds(nota, tr)
        recv = run_model({"op": "coordopt", "nota": nota, "name": name, "kinds": kinds})["recv"] if called else []
        recv = recv or []
        off = 1 if (nota == "cp" and tr[1]) else 0
        if off:
            out[path + "/C"] = 0 in recv
        for i, t in enumerate(tr[2]):
            p = "%s/%d" % (path, i)
            got = (i + off) in recv
            if isinstance(t, list):
                walk(t, p, got)
            else:
                out[p] = got
    walk(tree, "", True)
    res = {"recv": out}
    if name not in ("cap", "lier", "pos"):
        res["w"] = 0
    return res


# --------------------------------------------------------------------------------------------- generation

def gen_member(rng, lang, kinds, depth=0, strpe=False, nota="cp"):
    t = rng.choice(kinds)
    if t == "nest" and depth >= 1:
        t = "np"
    m = {"t": t}
    if t in ("np", "n"):
        m["w"] = rng.randrange(len(NOUNS[lang]))
        m["n"] = rng.choice([None, "s", "p", "p"])
    elif t == "q":
        m["w"] = rng.randrange(len(QS))
    elif t == "vpa":
        m["v"] = rng.randrange(len(COP[lang]))
        m["adjs"] = [[rng.choice(["A", "A", "pp"]), 0] for _ in range(rng.choice([1, 2, 2, 3]))]
        for it in m["adjs"]:
            it[1] = rng.randrange(len(ADJS[lang]) if it[0] == "A" else len(PPV[lang]))
        m["aconj"] = rng.choice(CONJ[lang][:2])
    elif t == "bpro":
        m["lem"] = rng.choice(BARE[lang])
    elif t == "pro":
        pe = rng.choice([1, 2, 3])
        m["pe"] = str(pe) if strpe and rng.random() < 0.5 else pe
        m["n"] = rng.choice(["s", "p"])
        m["g"] = rng.choice(["m", "f"] if lang == "fr" else ["m", "f", "n"])
    elif t == "adj":
        m["w"] = rng.randrange(len(ADJS[lang]))
    elif t == "vp":
        m["w"] = rng.randrange(len(VPVERBS[lang]))
    elif t == "nest":
        sub = [k for k in kinds if k != "nest"]
        nominal = [k for k in sub if k in ("np", "n", "q", "pro", "bpro")]
        sub = nominal if nominal else [rng.choice(sub)]
        m["conj"] = rng.choice(CONJ[lang][:2] * 3 + [None])
        if m["conj"] is None and rng.random() < 0.7:
            m["conj"] = rng.choice(CONJ[lang][:2])
        small = nota == "cp" and rng.random() < 0.15
        m["ms"] = [gen_member(rng, lang, sub, depth + 1) for _ in range(rng.choice([1, 0]) if small else rng.choice([2, 2, 3]))]
    return m


def gen_case(rng, lang, nota, role, n, flavour="plain"):
    case = {"lang": lang, "nota": nota, "role": role}
    conjs = CONJ[lang]
    case["conj"] = rng.choice([conjs[0], conjs[0], conjs[1], conjs[1], conjs[2], None, None])
    if role in ("subj", "subjattr", "vsubj", "obj", "alone"):
        kinds = ["np", "np", "np", "pro", "pro", "n", "q", "bpro", "bpro"]
        if flavour in ("nested", "mixed"):
            kinds += ["nest", "nest", "nest"]
        if flavour == "mixed" and role in ("subj", "alone") and (nota == "cp" or role == "subj"):
            kinds += ["adj", "vp"]
    elif role == "attr":
        kinds = ["adj", "adj", "adj", "np"] if flavour != "plain" else ["adj"]
    else:
        kinds = ["vp", "vpa", "vpa"] if (flavour == "vpattr" and nota == "cp") else ["vp"]
    if nota == "dep" and role in ("attr", "vps"):
        kinds = [k for k in kinds if k != "np"] or ["adj"]
    strpe = flavour == "strpe" and role in ("subj", "subjattr", "vsubj", "obj", "alone")
    if nota == "cp" and "adj" in kinds and "n" in kinds:
        kinds = [k for k in kinds if k != "n"]   # Phrase.add moves an A across an adjacent bare N (any phrase, CP included)
    case["members"] = [gen_member(rng, lang, kinds, strpe=strpe, nota=nota) for _ in range(n)]
    if strpe and case["members"] and not any(m["t"] == "pro" for m in case["members"]):
        case["members"][rng.randrange(n)] = {"t": "pro", "pe": str(rng.choice([1, 2, 3])), "n": "s", "g": "m"}
    if flavour == "owna" and n:
        for m in case["members"]:
            if rng.random() < 0.5:
                m["a"] = rng.choice([["!"], [";"], [","], [",", "!"], ["!", ","], [":"], ["."]])
        if not any(m.get("a") for m in case["members"]):
            case["members"][0]["a"] = [rng.choice(MARKS)]
    if nota == "cp":
        case["cpos"] = rng.choice([0, 0, 0, n, rng.randrange(n + 1)])
    if role in ("subj", "subjattr"):
        case["verb"] = BE[lang] if role == "subjattr" else rng.choice(VERBS[lang])
        if role == "subjattr":
            case["adj"] = rng.choice(ADJS[lang])
    elif role == "vsubj":
        case["vs"], case["verb"] = rng.choice(VS[lang]) if nota == "cp" else ("plain", rng.choice(VERBS[lang]))
        if case["vs"] == "attr":
            case["adj"] = rng.choice(ADJS[lang])
    elif role in ("obj", "attr"):
        case["verb"] = SEE[lang] if role == "obj" else BE[lang]
        case["subj"] = gen_subject(rng, lang)
    elif role == "vps":
        case["subj"] = gen_subject(rng, lang, noun_only=(nota == "dep"))
        if flavour == "vpattr" and nota == "cp" and rng.random() < 0.5:
            # a coordinated subject of nouns with a definite gender
            ws = [i for i, (_, g) in enumerate(NOUNS[lang]) if g in ("m", "f")] or list(range(len(NOUNS[lang])))
            case["subj"] = {"t": "cp", "conj": rng.choice(CONJ[lang][:2]),
                            "ms": [{"t": "np", "w": rng.choice(ws), "n": rng.choice([None, "s", "p"])}
                                   for _ in range(rng.choice([2, 2, 3]))]}
            if unset_number_participle(case):
                # known defect outside the model (see unset_number_participle): keep the participles out of this case
                for m in case["members"]:
                    if m["t"] == "vpa":
                        m["adjs"] = [["A", w % len(ADJS[lang])] for _, w in m["adjs"]]
    if nota == "dep" and role == "alone":
        case["rel"] = rng.choice(["subj", "comp", "mod"])
    if flavour == "incr" and n >= 1 and role in ("subj", "subjattr", "vsubj"):
        case["incr"] = rng.randrange(1, n + 1) if n > 1 else 1
        case["incr"] = min(case["incr"], n - 1) if n > 1 else 0
        if nota == "cp":
            case["cpos"] = 0
    if flavour == "malformed" and nota == "dep" and n >= 1 and role == "alone":
        case["malformed"] = True
        k = rng.random()
        if k < 0.7:
            other = [r for r in ("subj", "comp", "mod") if r != rel_of(case)]
            case["badrel"] = [rng.randrange(n), rng.choice(other)]
        else:
            case["tkind"] = "N" if lang == "en" else "N"
            case["conj"] = NOUNS[lang][0][0]
    return case


def gen_subject(rng, lang, noun_only=False):
    if noun_only or rng.random() < 0.35:
        w = rng.randrange(len(NOUNS[lang]))
        return {"t": "np", "w": w, "n": rng.choice(["s", "p"]), "pe": 3, "g": NOUNS[lang][w][1]}
    return {"t": "pro", "pe": rng.choice([1, 2, 3]), "n": rng.choice(["s", "p"]), "g": rng.choice(["m", "f"])}


def witness_cases():
    """fixed cases: the witnesses of the `_refuted` theorems of Props/C09.lean and the hand-seen defects, replayed on the
    real code on every run"""
    np_ = lambda w, n=None, a=None: {"t": "np", "w": w, "n": n, **({"a": a} if a else {})}  # noqa
    pro = lambda pe, n="s", g="m": {"t": "pro", "pe": pe, "n": n, "g": g}  # noqa
    res = []
    for lang in ("en", "fr"):
        c = CONJ[lang]
        for nota in ("cp", "dep"):
            v = VERBS[lang][0]
            # “The cat or the dog and the bird sleeps”
            res.append({"lang": lang, "nota": nota, "role": "subj", "verb": v, "conj": c[1],
                        "members": [np_(0), {"t": "nest", "conj": c[0], "ms": [np_(1), np_(2)]}]})
            res.append({"lang": lang, "nota": nota, "role": "subj", "verb": v, "conj": c[0],
                        "members": [np_(0), {"t": "nest", "conj": c[1], "ms": [np_(1), np_(2)]}]})
            # no conjunction, a plural member / a first person
            res.append({"lang": lang, "nota": nota, "role": "subj", "verb": v, "conj": None, "members": [np_(0, "p"), np_(1)]})
            res.append({"lang": lang, "nota": nota, "role": "subj", "verb": BE[lang], "conj": None, "members": [pro(1), pro(2)]})
            # person given as a string
            res.append({"lang": lang, "nota": nota, "role": "subj", "verb": BE[lang], "conj": c[1], "members": [pro("1"), pro(2)]})
            # own after-punctuation
            res.append({"lang": lang, "nota": nota, "role": "alone", "conj": c[0], "members": [np_(0, None, ["!"]), np_(1), np_(2)]})
            # empty coordination as subject, with and without conjunction
            res.append({"lang": lang, "nota": nota, "role": "subj", "verb": v, "conj": None, "members": []})
            res.append({"lang": lang, "nota": nota, "role": "subj", "verb": v, "conj": c[0], "members": []})
            # attribute coordination under a second-person subject
            res.append({"lang": lang, "nota": nota, "role": "attr", "verb": BE[lang], "conj": c[0],
                        "subj": {"t": "pro", "pe": 2, "n": "s", "g": "m"},
                        "members": [{"t": "adj", "w": 0}, {"t": "adj", "w": 1}, {"t": "adj", "w": 2}]})
            # coordinated verbs sharing a subject; the 2nd / 3rd one is a copula with coordinated attributes
            if nota == "cp":
                att2 = {"t": "vpa", "v": 1, "adjs": [["A", 1], ["pp", 0]], "aconj": c[0]}
                att3 = {"t": "vpa", "v": 2, "adjs": [["A", 2], ["A", 3]], "aconj": c[1]}
                att1 = {"t": "vpa", "v": 0, "adjs": [["A", 0]], "aconj": c[0]}
                fem = [i for i, (_, g) in enumerate(NOUNS[lang]) if g == "f"] or [0, 1]
                subs = [{"t": "np", "w": fem[0], "n": "p", "pe": 3, "g": NOUNS[lang][fem[0]][1]},
                        {"t": "pro", "pe": 1, "n": "p", "g": "f"},
                        {"t": "cp", "conj": c[0], "ms": [np_(fem[0]), np_(fem[-1])]},
                        {"t": "cp", "conj": c[0], "ms": [np_(fem[0]), np_(2 if lang == "en" else 0), np_(fem[-1])]},
                        {"t": "cp", "conj": c[1], "ms": [np_(fem[0]), np_(fem[-1], "p")]},
                        {"t": "cp", "conj": c[1], "ms": [np_(fem[0]), np_(fem[-1])]}]
                for su in subs:
                    for ms in ([att1, att2], [{"t": "vp", "w": 0}, att2, att3], [att2, att1, att3]):
                        w = {"lang": lang, "nota": "cp", "role": "vps", "conj": c[0], "subj": su, "members": ms}
                        if unset_number_participle(w):
                            w["oracle_only"] = True     # realization order outside the model: no model comparison
                        res.append(w)
            # bare tonic pronouns: number / person come from the lexicon entry, the expectation from the declension table
            for lem in BARE[lang]:
                for conj in (c[1], None):
                    res.append({"lang": lang, "nota": nota, "role": "subj", "verb": BE[lang], "conj": conj,
                                "members": [np_(0), {"t": "bpro", "lem": lem}]})
                    res.append({"lang": lang, "nota": nota, "role": "subj", "verb": v, "conj": conj,
                                "members": [{"t": "bpro", "lem": lem}, {"t": "bpro", "lem": BARE[lang][1]}]})
            # the coordinated subject FOLLOWS its verb: the coordination must still be realized first
            for vs, verb in (VS[lang] if nota == "cp" else [("plain", VERBS[lang][0])]):
                for conj, ms in ((c[0], [np_(0), np_(1)]), (c[1], [np_(1, "p"), pro(1)]), (c[0], [np_(1), np_(2), pro(2, "p", "f")])):
                    w = {"lang": lang, "nota": nota, "role": "vsubj", "vs": vs, "verb": verb, "conj": conj, "members": ms}
                    if vs == "attr":
                        w["adj"] = ADJS[lang][1]
                    res.append(w)
            # one member which is itself a coordination
            res.append({"lang": lang, "nota": nota, "role": "subj", "verb": v, "conj": c[0],
                        "members": [{"t": "nest", "conj": c[1], "ms": [np_(0), np_(1)]}]})
    return res


ROLES = ["alone", "subj", "subj", "subjattr", "vsubj", "vsubj", "obj", "attr", "vps"]
FLAVOURS = ["plain", "plain", "plain", "nested", "mixed", "owna", "strpe", "malformed", "incr", "vpattr"]


def gen_cases(ctx, total):
    rng = ctx.rng
    cases = witness_cases()
    # systematic part: every (lang, nota, role, n, conj) at least once with plain members
    for lang in ("en", "fr"):
        for nota in ("cp", "dep"):
            for role in ("alone", "subj", "subjattr", "vsubj", "obj", "attr", "vps"):
                if role == "subjattr" and lang == "en":
                    continue
                for n in range(0, 7):
                    for conj in CONJ[lang] + [None]:
                        c = gen_case(rng, lang, nota, role, n)
                        c["conj"] = conj
                        cases.append(c)
    while len(cases) < total:
        lang = rng.choice(["en", "fr"])
        nota = rng.choice(["cp", "dep"])
        role = rng.choice(ROLES)
        if role == "subjattr" and lang == "en":
            role = "subj"
        n = rng.choice([0, 1, 2, 2, 3, 3, 4, 5, 6])
        fl = rng.choice(FLAVOURS)
        if fl == "malformed":
            if nota != "dep":
                fl = "plain"
            else:
                role = "alone"
        if fl == "vpattr":
            role, nota = "vps", "cp"
            n = max(n, 2)
        cases.append(gen_case(rng, lang, nota, role, n, fl))
    return cases


OPT_LEAVES_CP = ["NP", "N", "Pro", "A", "AP", "V", "VP", "Adv", "D", "Q", "NO", "PP", "S", "SP"]
OPT_LEAVES_DEP = ["N", "Pro", "A", "V", "Adv", "D", "Q", "NO"]


def gen_opt_cases(ctx, total):
    rng = ctx.rng
    cases = []
    names = list(OPTION_VALUES)
    for lang in ("en", "fr"):
        for nota in ("cp", "dep"):
            leaves = OPT_LEAVES_CP if nota == "cp" else OPT_LEAVES_DEP
            for name in names:
                if name in ("ow", "poss") and lang == "fr":
                    continue
                # every leaf kind once, flat
                cases.append({"kind": "opt", "lang": lang, "nota": nota, "name": name,
                              "tree": ["CP", CONJ[lang][0], list(leaves)]})
                cases.append({"kind": "opt", "lang": lang, "nota": nota, "name": name, "tree": ["CP", None, []]})
    while len(cases) < total:
        lang = rng.choice(["en", "fr"])
        nota = rng.choice(["cp", "dep"])
        leaves = OPT_LEAVES_CP if nota == "cp" else OPT_LEAVES_DEP
        name = rng.choice(names)
        if name in ("ow", "poss") and lang == "fr":
            continue

        def tree(d):
            kids = []
            for _ in range(rng.choice([0, 1, 2, 2, 3, 4, 6])):
                if d < 2 and rng.random() < 0.25:
                    kids.append(tree(d + 1))
                else:
                    kids.append(rng.choice(leaves))
            if nota == "cp" and "N" in kids:
                # Phrase.add moves an A across adjacent bare N's (any phrase, CP included): keep them apart
                kids = ["AP" if k == "A" else k for k in kids]
            return ["CP", rng.choice(CONJ[lang][:2] + [None]), kids]
        cases.append({"kind": "opt", "lang": lang, "nota": nota, "name": name, "tree": tree(0)})
    return cases


# --------------------------------------------------------------------------------------------- run

def _work(chunk):
    out = []
    for case in chunk:
        if case.get("kind") == "opt":
            out.append(("opt", case, impl_opt(case)))
        else:
            out.append(("coord", case, impl_case(case)))
    return out


def evaluate(cases, procs=16):
    if len(cases) < 400 or procs <= 1:
        return _work(cases)
    size = max(50, len(cases) // (procs * 8))
    chunks = [cases[i:i + size] for i in range(0, len(cases), size)]
    mp = multiprocessing.get_context("fork")
    with mp.Pool(procs) as pool:
        res = pool.map(_work, chunks)
    return [x for r in res for x in r]


def case_class(case):
    if case.get("kind") == "opt":
        return "opt:%s:%s" % (case["nota"], case["name"])
    return "%s:%s:%s:n=%d:conj=%s" % (case["lang"], case["nota"], case["role"], len(case["members"]),
                                     "none" if case["conj"] is None else ("and" if is_and(case["lang"], case["conj"]) else "other"))


def run(ctx, deep=False):
    quick = ctx.tier == "quick" and not deep
    n_coord = 20000 if quick else 300000
    n_opt = 1500 if quick else 12000
    cases = gen_cases(ctx, n_coord) + gen_opt_cases(ctx, n_opt)
    results = evaluate(cases)
    # model side: one driver run for the coord lines, one for the option lines
    coord_lines = [r[2][0] for r in results if r[0] == "coord"]
    model = core.run_driver(coord_lines, ctx.driver)
    opt_cache = {}

    def run_model_opt(line):
        k = core.canon(line)
        if k not in opt_cache:
            raise core.Infra("option line not precomputed: " + k)
        return opt_cache[k]
    # precompute all option lines (every level of every tree)
    opt_lines = {}
    for r in results:
        if r[0] == "opt":
            def collect(tr, nota=r[1]["nota"], name=r[1]["name"]):
                l = {"op": "coordopt", "nota": nota, "name": name, "kinds": tree_kinds(nota, tr)}
                opt_lines[core.canon(l)] = l
                for t in tr[2]:
                    if isinstance(t, list):
                        collect(t)
            collect(r[1]["tree"])
    keys = list(opt_lines)
    for k, a in zip(keys, core.run_driver([opt_lines[k] for k in keys], ctx.driver)):
        if "driver_error" in a:
            raise core.Infra("driver error: %s on %s" % (a["driver_error"], k[:200]))
        opt_cache[k] = a
    dist = {}
    mi = 0
    for kind, case, payload in results:
        cls = case_class(case)
        dist[cls] = dist.get(cls, 0) + 1
        if kind == "coord":
            line, ans, extras, fails = payload
            m = model[mi]
            mi += 1
            if "driver_error" in m:
                raise core.Infra("driver error: %s on %s" % (m["driver_error"], core.canon(line)[:300]))
            ms = model_sentence(case, line, m, extras)
            ai = impl_compare_form(case, line, ans, extras)
            trivial = len(case["members"]) < 2
        else:
            _, ans, fails = payload
            if "err" in ans:
                ms, ai = {"err": None}, ans
            else:
                ms = model_opt_expected(case, run_model_opt)
                ai = ans
            trivial = len(case["tree"][2]) == 0
        ctx.cov["traces_validated_against_impl"] += 1
        ctx.count(case, ai, trivial=trivial)
        if core.canon(ms) != core.canon(ai) and not case.get("oracle_only"):
            # a disagreement on an input that is a listed finding of the IMPLEMENTATION is explained by it only if
            # the model predicted the same wrong output; so every disagreement counts
            ctx.diff(case, ms, ai)
        for s, detail in fails:
            ctx.fail(s, case, detail)
    ctx.notes["distribution"] = {k: v for k, v in sorted(dist.items())}
    ctx.notes["cases"] = {"coord": len(coord_lines), "opt": len(results) - len(coord_lines)}
    ctx.exhaustive = False


def search(ctx):
    """deeper search on the implementation when a proof or the correspondence broke"""
    run(ctx, deep=True)


def replay(path):
    d = json.load(open(path))
    case = d["input"]
    core.ensure_repo_on_path()
    if case.get("kind") == "opt":
        _, ans, fails = impl_opt(case)
    else:
        _, ans, _, fails = impl_case(case)
    print(json.dumps({"input": case, "got": ans, "oracle": fails}, ensure_ascii=False))
    return 1 if fails else 0
