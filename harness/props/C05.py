"""C05 — French clause transformations: negation, auxiliaries, clitics, inversion.
Model: lean/Pyrealb/Model/ClauseFr*.lean ; theorems: Props/C05.lean ; generator, own rendering into both notations,
adapter, direct oracle, shrinker: harness/impl/clausegenfr.py.

Correspondence: every specification is rendered by the harness' own trivial mapping into `S(subj, VP(V, …))` and
`root(V, subj(..), comp(..)…)`, realized by the real pyrealb (elision switched off for the comparison: elision is
C06's) and by the model driver; token lists (kind, lemma, form, liaison) and exceptions are compared.
Oracle: the text of C05 on the tokens of the unmodified realization; stratum `cross_language`: the same clause built
under loadFr() and realized after loadEn(), and built with lang="fr" everywhere under loadEn(), gives the same text; stratum `history`: the flag-less clause is realized first, then the flags are applied to a
clone() / to the same object — the text must be the single-shot one (clauses without `.pro()` whose flag-less form
survives a realization unchanged)."""
import json

from harness import core
from harness.impl import clausegenfr as G

META = {
    "ops": "clause",
    "driver": "drv_clausefr",
    "translators": ["clausefr"],
    "technique": "Lean 4 proofs about an executable model of the French clause pipeline (both notations) + differential "
                 "correspondence with the real library + direct oracle on the real token lists",
    "level_text": "Kernel-checked theorems about the model of doPronounPlacement / conjugate / processTyp for token lists and "
                  "complement lists of any length, every flag value and symbolic lexical items; the model is tied to the "
                  "code by a differential sweep over the flag product x verb panel x complement arrangements in every "
                  "order x all lexicon verbs (both notations), and the property text is evaluated directly on the real "
                  "output of every swept clause.",
    "level_note": "Trusted: Lean kernel; the model/implementation correspondence (finite, differential; elision is switched "
                  "off on the implementation side for the comparison and covered by C06); the harness' rendering of a "
                  "specification into the two notations; the canonical-clause fragment of the generator.",
    "rule": "clause specifications = subject (pronoun 3 persons x 2 numbers x 2 genders in two spellings | noun phrase | none "
            "for the imperative) x verb x 19 tenses x ordered arrangement of direct / à / de / locative / other complements "
            "each full | pronominalized | given as a clitic x typ (neg True + 7 lexical negations, pas, prog, mod 5, refl, "
            "int 13); quick: 6.5k of the 19152 flag combinations + 65 clitic arrangements x 18 contexts + 1.5k lexicon verbs "
            "+ 4k random; thorough: the complete flag product x 26 (panel verb, structure) draws + all arrangements x 72 "
            "contexts + every lexicon verb x 10; non-trivial = a typ flag, a compound tense or a pronominalized complement, "
            "counted once per (abstract specification, notation, answer); every specification is realized four more times "
            "with English as the current language (built under loadFr() then loadEn(); lang=\"fr\" everywhere under "
            "loadEn()) and the texts compared",
    "assumptions": ["A_elision_independent: switching doElision off does not change which tokens doPronounPlacement moves "
                    "(no pronoun of the fragment is elided below the level where it is placed); measured each run in "
                    "notes.elision_changed_tokens (contractions like de+le are C06 findings)"],
    "trusted": ["harness/impl/clausegenfr.py: rendering of a specification into both notations, token canonicalisation "
                "(noun phrases collapsed to one symbolic token, forms compared before elision)"],
}


def run(ctx, deep=False):
    specs = G.gen_specs(ctx.rng, ctx.tier)
    merged = G.sweep(ctx, specs, want=("c05",))
    ctx.notes["distribution"] = merged["dist"]
    ctx.notes["impl_exceptions"] = merged["errs"]
    ctx.notes["elision_changed_tokens"] = merged["elision_changed_tokens"]
    ctx.notes["specifications"] = len(specs)
    if ctx.tier == "thorough":
        ctx.exhaustive = True
        ctx.notes["exhaustive_scope"] = ("the product tense(19) x neg-class(3) x pas x prog x mod-class(3) x refl x int(14) "
                                         "x 15 panel verbs, and every ordered arrangement of pronominalized "
                                         "direct/à/de/locative complements x 72 tense/neg/mod/prog/int contexts; subject, "
                                         "nouns and the lexical negation are drawn")
    G.report_c05(ctx, merged)
    # every correspondence difference whose input also violates the property is explained by that failure
    return merged


def search(ctx):
    """a proof or the correspondence broke: look at the disagreeing inputs first, then a fresh larger sample"""
    for d in list(ctx.corr_diffs):
        sp = d["line"]["spec"]
        for (cl, det, nota) in sorted(G.c05_keys(sp, cross=True)):
            sig, small, notas = G.c05_signature(sp, cl, det, nota)
            ctx.fail(sig, {"op": "clause", "spec": small, "notas": notas, "clause": cl, "detail": det},
                     {"violates": cl, "detail": det, "how_found": "correspondence difference"})
    if not ctx.failures:
        import random
        rng = random.Random(ctx.seed + 7919)
        specs = G.gen_specs(rng, "quick")
        merged = G.sweep(ctx, specs, want=("c05",))
        G.report_c05(ctx, merged)


def replay(path):
    d = json.load(open(path, encoding="utf-8"))
    inp = d.get("input", {})
    inp = inp.get("input", inp)
    spec = inp["spec"] if "spec" in inp else inp["line"]["spec"]
    for nota in ("phrase", "dep"):
        a = G.realize(spec, nota, both=False)
        print(nota, "->", a["err"] or a["text"])
        for v in G.oracle_c05(spec, nota, a):
            print("   violates", v)
        for mode in G.HISTORY_MODES:
            t = G.realize_history(spec, nota, mode) if spec.get("typ") else None
            if t is not None and t != (("!" + a["err"]) if a["err"] else a["text"]):
                print("   violates ('history', %r): %s" % (mode, t))
        for mode in G.CROSS_MODES:
            t = G.realize_cross(spec, nota, mode)
            if t != (("!" + a["err"]) if a["err"] else a["text"]):
                print("   violates ('cross_language', %r): %s" % (mode, t))
    return 0
