"""C08 — constituent and dependency notations of the same clause realize identically.

Assembled from the two clause families: English (Model/ClauseEn*, Props/C08En.lean, harness/impl/clausegen.py) and French
(Model/ClauseFr*, Props/C08Fr.lean, harness/impl/clausegenfr.py).  Each half: theorems about the two notation
pipelines of the clause model (agreement under exact side conditions, refutation witnesses for every family of
disagreement), correspondence of both pipelines with the real library on the same specification rendered into both
notations by the framework's own trivial mapping, and the direct oracle `phrase text == dependency text`.
"""
from harness import core
from harness.impl import clausegen, clausegenfr

META = {
    "driver": "drv_clause",
    "ops": "clause (both notations), English and French",
    "translators": ["clauseen", "clausefr", "c08join"],
    "extra_modules": ["Pyrealb.Props.C08En", "Pyrealb.Props.C08Fr"],
    "technique": "Lean 4 proof over symbolic clause models of both notations (case analysis over the flag space, lexical items "
                 "symbolic) + correspondence on the full flag product + phrase-vs-dependency oracle",
    "level_text": "Kernel-checked on the clause models: the phrase pipeline and the dependency pipeline produce the same token list "
                  "under exact, stated side conditions (notations_agree_en_partial, notations_agree_fr_partial, clitic_agree), and "
                  "every family of disagreement of the unchanged code has a refutation witness decided through the full model. "
                  "Tie: the same clause specification is rendered into both notations by the framework's own mapping and realized by "
                  "the real library; model vs library on the flag product; oracle phrase text == dependency text.",
    "level_note": "Fragment G of DESIGN §4 (subject, verb, optional object, prepositional complements, determiners/adjectives; "
                  "sentence-type flags); adverbs, relative clauses and malformed inputs are outside. Disagreements of the "
                  "unchanged code are known findings with family signatures (minimal disagreeing clause).",
    "rule": "clause specifications (lexical choices from the lexicons by class, pronoun or noun arguments, tenses) x sentence-type "
            "flag combinations, both languages, rendered into both notations; non-trivial = specification whose flags change the "
            "text and whose canonical line is new",
    "assumptions": ["elision is switched off on the implementation side of the French comparison (C06's business)"],
    "trusted": [],
}


def run(ctx):
    clausegen.c08_en(ctx)
    clausegenfr.c08_fr(ctx, prepare=True)


def search(ctx):
    run(ctx)


def replay(path):
    import json
    print(open(path).read()[:2000])
    return 0
