"""C12 — JSON and source-text serializations round-trip.  (work in progress: generator + implementation side)"""
import contextlib
import datetime
import io
import json
import os
import re
import sys

from harness import core

TERMS = ["N", "A", "Pro", "D", "Adv", "V", "P", "C", "DT", "NO", "Q"]
PHRASES = ["NP", "AP", "AdvP", "VP", "PP", "CP", "S", "SP"]
DEPS = ["root", "subj", "det", "mod", "comp", "coord"]


# --------------------------------------------------------------------------------------------- implementation side

class Impl:
    """runs the real pyrealb in-process"""

    def __init__(self):
        core.ensure_repo_on_path()
        import pyrealb
        self.P = pyrealb
        self.ns = {}
        exec("from pyrealb import *", self.ns)
        self.err = io.StringIO()

    def load(self, lang):
        (self.P.loadEn if lang == "en" else self.P.loadFr)()

    def lemma(self, l):
        if isinstance(l, dict):
            return datetime.datetime(*l["dt"])
        return l

    def val(self, v):
        if isinstance(v, dict) and "dt" in v and len(v) == 1:
            return datetime.datetime(*v["dt"])
        if isinstance(v, dict):
            return {k: self.val(x) for k, x in v.items()}
        return v

    def build(self, p):
        P = self.P
        if isinstance(p, str):
            return p
        k = p["k"]
        lang = p["lang"]
        if k in TERMS:
            self.load(lang)
            e = getattr(P, k)(self.lemma(p["lemma"]))
        elif k in PHRASES:
            elems = [self.build(c) for c in p["elems"]]
            self.load(lang)
            e = getattr(P, k)(*elems)
        else:
            t = self.build(p["term"])
            deps = [self.build(c) for c in p["deps"]]
            self.load(lang)
            e = getattr(P, k)(t, *deps)
        for c in p["calls"]:
            op = c[0]
            if op == "o":
                e = getattr(e, c[1])() if c[2] is None else getattr(e, c[1])(self.val(c[2]))
            elif op == "tag":
                e = e.tag(c[1]) if c[2] is None else e.tag(c[1], dict(c[2]))
            elif op == "add":
                x = self.build(c[1])
                self.load(lang)
                e = e.add(x) if c[2] is None else e.add(x, c[2])
            elif op in ("typ", "dOpt"):
                e = getattr(e, op)(self.val(dict(c[1])))
            elif op == "nat":
                e = e.nat() if c[1] is None else e.nat(c[1])
            elif op == "maje":
                e = e.maje(c[1])
            else:
                raise core.Infra("unknown call " + repr(c))
        return e

    def captured(self, f):
        """(result or None, exception name or None, number of stderr lines)"""
        buf = io.StringIO()
        out = io.StringIO()
        res, exc = None, None
        with contextlib.redirect_stderr(buf), contextlib.redirect_stdout(out):
            try:
                res = f()
            except RecursionError:
                exc = "RecursionError"
            except Exception as e:  # noqa
                exc = type(e).__name__
        n = len([l for l in (buf.getvalue() + out.getvalue()).split("\n") if l.strip()])
        return res, exc, n

    def realize(self, e, lang):
        self.load(lang)
        r, exc, n = self.captured(lambda: e.realize())
        return {"err": exc} if exc else {"text": r}

    def ser(self, e):
        """the two serializations of a (not yet realized) expression"""
        j, exc, _ = self.captured(lambda: e.toJSON())
        s, exc2, _ = self.captured(lambda: e.toSource())
        return (j if not exc else {"err": exc}), (s if not exc2 else {"err": exc2})


def jtext(j):
    try:
        return json.dumps(j, ensure_ascii=False)
    except TypeError:
        return {"err": "TypeError"}


# --------------------------------------------------------------------------------------------- lexical data

class Lex:
    """what Terminal.setLemma reads from the lexicons and rules, computed from the JSON data files (not through
    the code under test): the `env` of the model"""

    def __init__(self):
        d = os.path.join(core.REPO, "src", "pyrealb", "data")
        self.lex = {l: json.load(open(os.path.join(d, "lexicon-%s.json" % l), encoding="utf-8")) for l in ("en", "fr")}
        self.rules = {l: json.load(open(os.path.join(d, "rules-%s.json" % l), encoding="utf-8")) for l in ("en", "fr")}
        self.plural_tabs = {"en": self._plural("TerminalEn.py"), "fr": self._plural("TerminalFr.py")}
        self.cache = {}

    def _plural(self, fname):
        import ast
        src = open(os.path.join(core.REPO, "src", "pyrealb", fname), encoding="utf-8").read()
        for n in ast.walk(ast.parse(src)):
            if isinstance(n, ast.FunctionDef) and n.name == "noun_always_plural":
                return ast.literal_eval(n.body[0].value)
        raise core.Infra(fname + ": noun_always_plural not found")

    def info(self, lexlang, classlang, kind, lemma):
        """entry of `lemma` as `kind` in the lexicon of `lexlang` (the CURRENT language at construction), interpreted
        with the rules of `classlang` (the language of the Terminal object); None = a warning"""
        key = (lexlang, classlang, kind, lemma)
        if key in self.cache:
            return self.cache[key]
        res = self._info(lexlang, classlang, kind, lemma)
        self.cache[key] = res
        return res

    def _info(self, lexlang, classlang, kind, lemma):
        e = self.lex[lexlang].get(lemma)
        if e is None or kind not in e or not isinstance(e[kind], dict):
            return None
        rules = self.rules[classlang]
        items, tabpe, plural = [], None, False
        for k, v in e[kind].items():
            if k == "tab":
                ending = None
                if kind != "V":
                    if v in rules["declension"]:
                        decl = rules["declension"][v]
                        ending = decl["ending"]
                        if kind == "Pro":
                            dd = decl["declension"]
                            if "pe" in dd[0]:
                                pe = dd[0]["pe"]
                                if pe != 3 and all(x.get("pe") == pe for x in dd[1:]):
                                    tabpe = pe
                        elif kind == "N" and v in self.plural_tabs[classlang]:
                            plural = True
                else:
                    if v in rules["conjugation"]:
                        ending = rules["conjugation"][v]["ending"]
                    else:
                        return None  # bad lexicon table: a warning
                if ending is None or not lemma.endswith(ending):
                    if kind not in ("Adv", "C", "P"):
                        return None  # bad lexicon table: a warning
                items.append(["tab", v])
            else:
                items.append([k, v])
        return {"items": items, "tabpe": tabpe, "plural": plural, "id": "%s:%s:%s" % (lexlang, kind, lemma)}

    def novalue(self, lexlang, lemma):
        e = self.lex[lexlang].get(lemma)
        if e is not None and "value" in e:
            return {"value": e["value"], "ord": "A" in e}
        return None


_LEX = None


def lexdata():
    global _LEX
    if _LEX is None:
        _LEX = Lex()
    return _LEX


# --------------------------------------------------------------------------------------------- generator

PUNCT = [",", ".", "!", "?", ":", ";", "(", "[", "{", '"', "'", "*", "«", "...", " -- ", "x", ""]
QWORDS = ["hello", "two words", "l'été", "œuvre", "", "Zoé", "a-b", "100%", "<b>", "x_y"]
QBAD = ['say "hi"', 'a"', '"', 'back\\slash', 'tab\\there', 'end\\', 'q\\q', "it's \"x\"", 'a\\"b', "C:\\new"]
TAGS = [("b", None), ("i", {}), ("a", {"href": "http://x.org/?a=1&b=2"}), ("span", {"class": "c d", "id": "n1"}),
        ("p", {"title": "it's"}), ("div", {"data-x": 'say "hi"'}), ("a b", None), ('q"t', None), ('q"t', {"k": "v"})]
DATES = ["2024-01-05", "1999-12-28T23:59:58", "2023-07-14 00:00:00", "2024-02-28T12:00:00", "2000-01-01 12:30:00"]
NUMS = [0, 1, 2, 3, 21, 100, 1000, 1234567, -5, "1", "25", "3.5", "1000", "-2", "1,5", "1e+3"]
NEGFR = ["plus", "jamais", "rien", "personne", "guère"]


class Gen:
    def __init__(self, rng, table):
        self.rng = rng
        self.tab = table
        self.L = lexdata()
        self.pools = self.make_pools()
        self.opts = {o["name"]: o for o in table["options"]}

    def make_pools(self):
        """per language and kind: lemmas stratified by the keys of the lexicon entry and presence in the other lexicon"""
        L = self.L
        pools = {}
        for lang in ("en", "fr"):
            other = "fr" if lang == "en" else "en"
            strata = {}
            for lemma in sorted(L.lex[lang]):
                e = L.lex[lang][lemma]
                for kind in self.tab["lexKinds"]:
                    if kind in e and isinstance(e[kind], dict):
                        inf = L.info(lang, lang, kind, lemma)
                        if inf is None:
                            continue
                        if lang == "en" and kind == "N" and e[kind].get("cnt") == "no":
                            continue  # D("a") + uncountable noun warns at construction (restriction of the generator)
                        o = L.lex[other].get(lemma)
                        key = (kind, tuple(sorted(k for k, _ in inf["items"] if k != "tab")), inf["tabpe"], inf["plural"],
                               bool(o and kind in o), e[kind].get("tab") if kind in ("Pro", "D") else None)
                        strata.setdefault(key, []).append(lemma)
            for key, lemmas in strata.items():
                pick = lemmas if len(lemmas) <= 6 else [lemmas[i * len(lemmas) // 6] for i in range(6)]
                pools.setdefault((lang, key[0]), []).append(pick)
            # number words
            pools[(lang, "NOword")] = [[w for w in sorted(L.lex[lang]) if "value" in L.lex[lang][w]
                                        and isinstance(L.lex[lang][w]["value"], int)][:40]]
        return pools

    def word(self, lang, kind):
        strata = self.pools[(lang, kind)]
        return self.rng.choice(self.rng.choice(strata))

    # ---- terminals
    def term(self, lang, kind, nopts=None):
        r = self.rng
        if kind == "Q":
            lemma = r.choice(QWORDS) if r.random() < 0.8 else r.choice(QBAD)
        elif kind == "NO":
            x = r.random()
            lemma = r.choice(NUMS) if x < 0.75 else self.word(lang, "NOword")
        elif kind == "DT":
            lemma = r.choice(DATES)
            if r.random() < 0.12:
                lemma = {"dt": [2024, r.randint(1, 12), r.randint(1, 28), r.randint(0, 23), r.randint(0, 59), r.randint(0, 59)]}
        else:
            lemma = self.word(lang, kind)
        p = {"k": kind, "lemma": lemma, "lang": lang, "calls": []}
        self.add_calls(p, nopts)
        return p

    def otherlang(self, lang):
        return "fr" if lang == "en" else "en"

    def sub(self, lang):
        """language of a sub-expression: mostly the same"""
        return lang if self.rng.random() < 0.93 else self.otherlang(lang)

    def np(self, lang, depth):
        r = self.rng
        el = []
        if r.random() < 0.8:
            el.append(self.term(self.sub(lang), "D") if r.random() < 0.9 else self.term(lang, "NO"))
        for _ in range(r.choice([0, 0, 1, 1, 2])):
            el.append(self.term(lang, "A"))
        el.append(self.term(self.sub(lang), "N"))
        for _ in range(r.choice([0, 0, 0, 1, 2])):
            el.append(self.term(lang, "A"))
        if depth > 0 and r.random() < 0.25:
            el.append(self.pp(self.sub(lang), depth - 1))
        if r.random() < 0.1:
            r.shuffle(el)
        return self.phrase(lang, "NP", el)

    def pp(self, lang, depth):
        return self.phrase(lang, "PP", [self.term(lang, "P"), self.np(lang, depth)])

    def ap(self, lang):
        el = [self.term(lang, "A")]
        if self.rng.random() < 0.4:
            el.insert(0, self.term(lang, "Adv"))
        return self.phrase(lang, "AP", el)

    def vp(self, lang, depth):
        r = self.rng
        el = [self.term(lang, "V")]
        x = r.random()
        if depth > 0:
            if x < 0.4:
                el.append(self.np(self.sub(lang), depth - 1))
            elif x < 0.6:
                el.append(self.pp(lang, depth - 1))
            elif x < 0.7:
                el.append(self.ap(lang))
            elif x < 0.78:
                el.append(self.term(lang, "DT"))
            elif x < 0.86:
                el.append(r.choice(QWORDS + QBAD[:2]))  # a bare string child
        if r.random() < 0.25:
            el.append(self.phrase(lang, "AdvP", [self.term(lang, "Adv")]) if r.random() < 0.5 else self.term(lang, "Adv"))
        return self.phrase(lang, "VP", el)

    def cp(self, lang, depth, what):
        r = self.rng
        el = [self.term(lang, "C")] if r.random() < 0.9 else []
        for _ in range(r.choice([1, 2, 2, 3])):
            el.append(what())
        if r.random() < 0.3:
            r.shuffle(el)
        return self.phrase(lang, "CP", el)

    def subjlike(self, lang, depth):
        r = self.rng
        x = r.random()
        if x < 0.5 or depth <= 0:
            return self.np(lang, depth - 1) if x < 0.35 else self.term(lang, r.choice(["Pro", "Pro", "N", "Q"]))
        if x < 0.75:
            return self.cp(lang, depth - 1, lambda: r.choice([lambda: self.np(lang, 0), lambda: self.term(lang, "N"),
                                                                 lambda: self.term(lang, "Pro"), lambda: self.term(lang, "D"),
                                                                 lambda: self.term(lang, "A")])())
        return self.np(lang, depth - 1)

    def s(self, lang, depth, kind="S"):
        r = self.rng
        el = []
        if kind == "SP" and r.random() < 0.6:
            el.append(self.term(lang, "Pro"))
        if r.random() < 0.9:
            el.append(self.subjlike(self.sub(lang), depth - 1))
        if r.random() < 0.9:
            el.append(self.vp(lang, depth - 1) if r.random() < 0.85 else self.cp(lang, depth - 1, lambda: self.vp(lang, 0)))
        if depth > 1 and r.random() < 0.15:
            el.append(self.s(lang, depth - 2, "SP"))
        return self.phrase(lang, kind, el)

    def phrase(self, lang, kind, el):
        r = self.rng
        p = {"k": kind, "lang": lang, "elems": el, "calls": []}
        # some children are attached by add(), with or without position
        adds = []
        while el and r.random() < 0.12:
            if r.random() < 0.5:
                adds.append(["add", el.pop(), None])
            else:
                i = r.randrange(len(el))
                c = el.pop(i)
                adds.append(["add", c, r.choice([i, 0, len(el), i, None])])
        self.add_calls(p)
        for a in adds:
            p["calls"].insert(r.randint(0, len(p["calls"])), a)
        return p

    # ---- dependents
    def dep(self, lang, kind, depth):
        r = self.rng
        tk = {"root": ["V", "V", "V", "N", "A"], "subj": ["N", "N", "Pro", "Q"], "det": ["D", "D", "NO"], "mod": ["A", "Adv", "P", "N", "V"],
              "comp": ["N", "P", "A", "Adv", "DT", "Q"], "coord": ["C"]}[kind]
        t = self.term(self.sub(lang), r.choice(tk))
        if r.random() < 0.05:
            t = r.choice(QWORDS)
        deps = []
        if depth > 0:
            if kind == "coord":
                ck = r.choice(["subj", "comp", "mod", "det", "root"])
                for _ in range(r.choice([1, 2, 2, 3])):
                    deps.append(self.dep(lang, ck, depth - 1))
            else:
                tkk = t["k"] if isinstance(t, dict) else "Q"
                if tkk == "V":
                    if r.random() < 0.85:
                        deps.append(self.dep(self.sub(lang), "subj" if r.random() < 0.85 else "coord", depth - 1))
                    if r.random() < 0.6:
                        deps.append(self.dep(lang, "comp", depth - 1))
                    if r.random() < 0.3:
                        deps.append(self.dep(lang, "mod", depth - 1))
                elif tkk in ("N", "Q"):
                    if r.random() < 0.7:
                        deps.append(self.dep(lang, "det", 0))
                    for _ in range(r.choice([0, 0, 1, 2])):
                        deps.append(self.dep(lang, "mod", depth - 1))
                elif tkk == "P":
                    deps.append(self.dep(lang, r.choice(["mod", "comp"]), depth - 1))
                if r.random() < 0.1:
                    r.shuffle(deps)
        p = {"k": kind, "lang": lang, "term": t, "deps": deps, "calls": []}
        adds = []
        while deps and r.random() < 0.12:
            if r.random() < 0.5:
                adds.append(["add", deps.pop(), None])
            else:
                i = r.randrange(len(deps))
                c = deps.pop(i)
                adds.append(["add", c, r.choice([i, 0, len(deps), None])])
        self.add_calls(p)
        for a in adds:
            p["calls"].insert(r.randint(0, len(p["calls"])), a)
        return p

    # ---- option calls
    def applicable(self, kind):
        res = []
        for o in self.tab["options"]:
            if not o["allowed"] or kind in o["allowed"] or kind in DEPS:
                res.append(o["name"])
        return res

    def one_call(self, p, force=None):
        r = self.rng
        kind = p["k"]
        lang = p["lang"]
        menu = [("opt", 6), ("list", 2), ("tag", 1)]
        if kind in self.tab["typKinds"]:
            menu.append(("typ", 3))
        if kind in ("NO", "DT"):
            menu += [("dOpt", 5), ("nat", 3)]
        if kind in self.tab["majeKinds"]:
            menu.append(("maje", 1))
        what = force or r.choices([m for m, _ in menu], [w for _, w in menu])[0]
        if what == "opt":
            names = self.applicable(kind)
            if r.random() < 0.04:
                names = [o["name"] for o in self.tab["options"]]  # possibly not applicable: a warning
            name = r.choice(names)
            o = self.opts[name]
            x = r.random()
            if x < 0.9:
                v = r.choice(o["valid"])
            elif x < 0.95:
                v = None  # called without argument
            else:
                v = r.choice(["zz", 7, True, False, "", "p"])  # possibly invalid
            return ["o", name, v]
        if what == "list":
            return ["o", r.choice(self.tab["optionListMethods"]), r.choice(PUNCT)]
        if what == "tag":
            t = r.choice(TAGS)
            return ["tag", t[0], t[1]]
        if what == "typ":
            d = {}
            for _ in range(r.choice([1, 1, 2, 3])):
                k, vals = r.choice(self.tab["typAllowed"])
                v = r.choice(vals)
                if k == "neg" and lang == "fr" and r.random() < 0.3:
                    v = r.choice(NEGFR)
                if r.random() < 0.03:
                    v = "zz"
                d[k] = v
            if r.random() < 0.02:
                d["zz"] = True
            return ["typ", d]
        if what == "dOpt":
            keys = self.tab["dOptKeysDT"] if kind == "DT" else self.tab["dOptKeysNO"]
            d = {}
            for _ in range(r.choice([1, 1, 2, 3])):
                k = r.choice(keys)
                if k == "mprecision":
                    d[k] = r.choice([0, 1, 3])
                elif k == "rtime":
                    d[k] = r.choice([False, "2024-01-02", "2024-01-05T10:00:00", {"dt": [2024, 1, 3, 0, 0, 0]}])
                else:
                    d[k] = r.random() < 0.5
            if r.random() < 0.03:
                d[r.choice(["zz", "nat"])] = r.choice(["x", 1])
            return ["dOpt", d]
        if what == "nat":
            return ["nat", r.choice([True, False, None])]
        if what == "maje":
            return ["maje", r.random() < 0.5]
        raise AssertionError(what)

    def add_calls(self, p, n=None):
        r = self.rng
        if n is None:
            n = r.choice([0, 0, 0, 1, 1, 2, 3])
        for _ in range(n):
            p["calls"].append(self.one_call(p))

    def program(self):
        r = self.rng
        lang = r.choice(["en", "fr"])
        x = r.random()
        if x < 0.22:
            kind = r.choice(TERMS)
            return self.term(lang, kind, nopts=r.choice([0, 1, 1, 2, 3, 4]))
        if x < 0.50:
            return self.s(lang, 3)
        if x < 0.62:
            return r.choice([lambda: self.np(lang, 2), lambda: self.vp(lang, 2), lambda: self.pp(lang, 1), lambda: self.ap(lang),
                             lambda: self.cp(lang, 1, lambda: self.np(lang, 0)), lambda: self.s(lang, 2, "SP")])()
        if x < 0.9:
            return self.dep(lang, "root", 3)
        return self.dep(lang, r.choice(DEPS), 2)


def nodes(p):
    """all nodes of a program (pre-order), including the arguments of add()"""
    if isinstance(p, str):
        return
    yield p
    for c in p.get("elems", []):
        yield from nodes(c)
    if "term" in p:
        yield from nodes(p["term"])
        for c in p["deps"]:
            yield from nodes(c)
    for c in p["calls"]:
        if c[0] == "add":
            yield from nodes(c[1])


# --------------------------------------------------------------------------------------------- one line on the real code

ROUTES = ("json", "json-text", "source")


def impl_line(im, line):
    """{"warn":true} when the expression is not built without warnings (outside the property's domain); otherwise the
    serializations and, for each route, what decoding under the current language `cur` gives"""
    import copy
    import warnings
    prog, cur = line["prog"], line["cur"]
    root_lang = prog["lang"]
    e, exc, nw = im.captured(lambda: im.build(prog))
    if exc or nw:
        return {"warn": True}, None
    j, s = im.ser(e)
    jt = jtext(j)
    ans = {"warn": False, "json": jt, "src": s}
    j = copy.deepcopy(j)
    e0 = im.build(prog)
    text0 = im.realize(e0, root_lang)
    obs = {"text": text0, "routes": {}}
    for r in ROUTES:
        im.load(cur)
        if r == "json":
            f = lambda: im.P.fromJSON(copy.deepcopy(j))
        elif r == "json-text":
            f = lambda: im.P.fromJSON(json.loads(json.dumps(j)))
        else:
            def f():
                with warnings.catch_warnings():
                    warnings.simplefilter("ignore")
                    return eval(s, dict(im.ns))
        e1, exc, msgs = im.captured(f)
        if exc is None and not isinstance(e1, im.P.Constituent):
            exc = "NotAConstituent"
        if exc:
            ans[r] = {"err": exc}
            obs["routes"][r] = {"err": exc}
            continue
        j1, s1 = im.ser(e1)
        ans[r] = {"json": jtext(j1), "src": s1, "msgs": msgs}
        same = (j1 == j)
        j1 = copy.deepcopy(j1)
        text1 = im.realize(e1, root_lang)   # realization modifies the expression: done last
        obs["routes"][r] = {"text": text1, "json_same": same, "src_same": s1 == s, "j1": j1, "s1": s1}
    obs["j"] = j
    obs["s"] = s
    return ans, obs
