"""C12 — JSON and source-text serializations round-trip.
Model: lean/Pyrealb/Model/{Expr,Json,ExprSource}.lean ; theorems: Props/C12.lean ; tables: Gen/OptionTable.lean.

Correspondence: seeded construction programs (both notations, both languages, every option kind, add() with and
without position, bare strings) are built by the real pyrealb and by the model; compared: the warning flag, the text of
toJSON(), toSource(), and — for the three routes fromJSON(toJSON), fromJSON(loads(dumps(toJSON))), eval(toSource()),
each run under the requested CURRENT language — the error class or the two serializations of the decoded expression.
Direct oracle (independent of the model) = the property on the implementation: on every route the decoded expression
realizes to the same text and serializes to the same JSON and the same source again."""
import contextlib
import datetime
import io
import json
import os
import re
import sys

from harness import core

META = {
    "ops": "rt",
    "driver": "drv_json",
    "translators": ["options"],
    "technique": "Lean 4 proofs by structural induction on expression trees (all expressions, all lexicons; one lemma per "
                 "option kind; tables of options lifted from the source by AST on every run) + differential correspondence of "
                 "the executable model with the real pyrealb on seeded construction programs + direct oracle",
    "level_text": "Kernel-checked, for every expression tree and every lexicon: fromJSON(toJSON(e)) has the same tree and option "
                  "state as e, and the same JSON again, under per-node side conditions WFJ (each props entry is one its option "
                  "method accepts for that constituent kind — one constructor of `Replays` per option kind: feature options "
                  "incl. the ow/own alias, a/b/ba/en lists, tag with attributes, typ, dOpt, maje, lexicon props skipped; "
                  "children in an order Phrase.add leaves alone); json.loads(json.dumps(j)) = j for EVERY structure without a "
                  "datetime (printer/reader on code-point lists), hence the text route equals the object route; decoding "
                  "never depends on the current language (all expressions, unconditional since repair 8586a6a); "
                  "eval(toSource(e)) rebuilds e EXACTLY (state and history), hence the same source and JSON again: text level "
                  "parseSrc(toSource e) = progOf e for every lemma and tag name (escaped), lang= arguments included, when the "
                  "root is of the current language and the option values have a covered repr (SrcOK), evaluation level "
                  "build(progOf e) = e when each constituent is what its own call history makes of its constructor "
                  "(WFS); under a canonical history (CanonJ) the JSON round trip gives back the very same expression, hence the same "
                  "source. Each full-strength clause that the code violates has a _refuted theorem with a concrete witness "
                  "(tn() without argument, DT(datetime), a root of the other language, a repeated option) replayed on the real "
                  "code by the harness; the former source witnesses (quote / backslash lemma, .own, .ord, missing lang=) are "
                  "repaired (a4c65f5, 09cd540, b0f13e0, bf17f90) and the model follows the repaired code.",
    "level_note": "Trusted: Lean kernel; the hand-written model (Model/Expr, Json, ExprSource) tied to the code by the "
                  "correspondence only; A_abs (realization is a function of tree + props + lexicon entries: peng/taux sharing "
                  "is not modelled, the oracle compares realized texts on the implementation); that an expression built without "
                  "warnings satisfies the side conditions WFJ / CanonJ / WFS / SrcOK is NOT proved in general (they are "
                  "decidable per expression; the oracle's syntactic classifier decides which generated inputs are expected to "
                  "fail, and the clean profile — 49% of the inputs — must pass every clause); json.dumps is modelled with "
                  "ensure_ascii=False (A_ascii); floats, DT() of the current instant, rtime=True, exponents / separators in NO "
                  "strings, \\x \\u \\N escapes and triple quotes are outside the model and never generated.",
    "rule": "seeded construction programs of 15 profiles (clean 45%: no feature known to defeat a clause; othercur, mixed, nodt, "
            "quotes, noncanon, cpprop, preadd, addhead, adjorder, adjmove, noarg, derived, wild, malformed): S/SP/NP/VP/PP/AP/AdvP/CP "
            "and root/subj/det/mod/comp/coord trees of depth<=3 over lexicon lemmata stratified by entry keys, every option "
            "of the makeOptionMethod table + a b ba en + tag + typ + dOpt + nat + maje + add/add@pos in both languages, "
            "decoded under either current language; non-trivial = a program built without warning whose (program, current "
            "language) pair is new",
    "assumptions": [
        "A_abs: the realized text is a function of the tree, the props and the lexicon entries used (peng/taux sharing not modelled)",
        "A_ascii: json.dumps' default \\uXXXX escaping of non-ASCII characters is inverted by json.loads (the model prints with ensure_ascii=False)",
        "A_repr: repr() of the option values that occur (str, int, bool, None, dict of those, datetime) is what "
        "Model/ExprSource.reprPVal prints; which characters repr escapes (str.isprintable) is a table computed by running "
        "Python over the generator's character alphabet (Gen.OptionTable.nonPrintable: controls, U+0085, U+00A0, U+00AD, "
        "U+200B, U+2028, U+FEFF, U+FFFE, U+D7FF, tag characters U+E0001/E0020/E007F, private use U+F0000/U+10FFFD)",
        "A_lex: the lexicon entries sent to the model (harness Lex.info, computed from the JSON data files, not through the "
        "code under test) are what getLemma returns",
    ],
    "trusted": ["harness/props/C12.py: generator profiles, feature classifier of the oracle (syntactic, independent of the model)"],
}

TERMS = ["N", "A", "Pro", "D", "Adv", "V", "P", "C", "DT", "NO", "Q"]
PHRASES = ["NP", "AP", "AdvP", "VP", "PP", "CP", "S", "SP"]
DEPS = ["root", "subj", "det", "mod", "comp", "coord"]


# --------------------------------------------------------------------------------------------- implementation side

class Impl:
    """runs the real pyrealb in-process"""

    def __init__(self):
        core.ensure_repo_on_path()
        import pyrealb
        self.P = pyrealb
        self.ns = {}
        exec("from pyrealb import *", self.ns)
        self.err = io.StringIO()

    def load(self, lang):
        (self.P.loadEn if lang == "en" else self.P.loadFr)()

    def lemma(self, l):
        if isinstance(l, dict):
            return datetime.datetime(*l["dt"])
        return l

    def val(self, v):
        if isinstance(v, dict) and "dt" in v and len(v) == 1:
            return datetime.datetime(*v["dt"])
        if isinstance(v, dict):
            return {k: self.val(x) for k, x in v.items()}
        return v

    def build(self, p):
        P = self.P
        if isinstance(p, str):
            return p
        k = p["k"]
        lang = p["lang"]
        if k in TERMS:
            self.load(lang)
            e = getattr(P, k)(self.lemma(p["lemma"]))
        elif k in PHRASES:
            elems = [self.build(c) for c in p["elems"]]
            self.load(lang)
            e = getattr(P, k)(*elems)
        else:
            t = self.build(p["term"])
            deps = [self.build(c) for c in p["deps"]]
            self.load(lang)
            e = getattr(P, k)(t, *deps)
        for c in p["calls"]:
            op = c[0]
            if op == "o":
                e = getattr(e, c[1])() if c[2] is None else getattr(e, c[1])(self.val(c[2]))
            elif op == "tag":
                e = e.tag(c[1]) if c[2] is None else e.tag(c[1], dict(c[2]))
            elif op == "add":
                x = self.build(c[1])
                self.load(lang)
                e = e.add(x) if c[2] is None else e.add(x, c[2])
            elif op in ("typ", "dOpt"):
                e = getattr(e, op)(self.val(dict(c[1])))
            elif op == "nat":
                e = e.nat() if c[1] is None else e.nat(c[1])
            elif op == "maje":
                e = e.maje(c[1])
            else:
                raise core.Infra("unknown call " + repr(c))
        return e

    def captured(self, f):
        """(result or None, exception name or None, number of stderr lines)"""
        buf = io.StringIO()
        out = io.StringIO()
        res, exc = None, None
        with contextlib.redirect_stderr(buf), contextlib.redirect_stdout(out):
            try:
                res = f()
            except RecursionError:
                exc = "RecursionError"
            except Exception as e:  # noqa
                exc = type(e).__name__
        n = len([l for l in (buf.getvalue() + out.getvalue()).split("\n") if l.strip()])
        return res, exc, n

    def realize(self, e, lang):
        self.load(lang)
        r, exc, n = self.captured(lambda: e.realize())
        return {"err": exc} if exc else {"text": r}

    def ser(self, e):
        """the two serializations of a (not yet realized) expression"""
        j, exc, _ = self.captured(lambda: e.toJSON())
        s, exc2, _ = self.captured(lambda: e.toSource())
        return (j if not exc else {"err": exc}), (s if not exc2 else {"err": exc2})


def jtext(j):
    try:
        return json.dumps(j, ensure_ascii=False)
    except TypeError:
        return {"err": "TypeError"}


# --------------------------------------------------------------------------------------------- lexical data

class Lex:
    """what Terminal.setLemma reads from the lexicons and rules, computed from the JSON data files (not through
    the code under test): the `env` of the model"""

    def __init__(self):
        d = os.path.join(core.REPO, "src", "pyrealb", "data")
        self.lex = {l: json.load(open(os.path.join(d, "lexicon-%s.json" % l), encoding="utf-8")) for l in ("en", "fr")}
        self.rules = {l: json.load(open(os.path.join(d, "rules-%s.json" % l), encoding="utf-8")) for l in ("en", "fr")}
        self.plural_tabs = {"en": self._plural("TerminalEn.py"), "fr": self._plural("TerminalFr.py")}
        self.cache = {}

    def _plural(self, fname):
        import ast
        src = open(os.path.join(core.REPO, "src", "pyrealb", fname), encoding="utf-8").read()
        for n in ast.walk(ast.parse(src)):
            if isinstance(n, ast.FunctionDef) and n.name == "noun_always_plural":
                return ast.literal_eval(n.body[0].value)
        raise core.Infra(fname + ": noun_always_plural not found")

    def info(self, lexlang, classlang, kind, lemma):
        """entry of `lemma` as `kind` in the lexicon of `lexlang` (the CURRENT language at construction), interpreted
        with the rules of `classlang` (the language of the Terminal object); None = a warning"""
        key = (lexlang, classlang, kind, lemma)
        if key in self.cache:
            return self.cache[key]
        res = self._info(lexlang, classlang, kind, lemma)
        self.cache[key] = res
        return res

    def _info(self, lexlang, classlang, kind, lemma):
        e = self.lex[lexlang].get(lemma)
        if e is None or kind not in e or not isinstance(e[kind], dict):
            return None
        rules = self.rules[classlang]
        items, tabpe, plural, warn = [], None, False, False
        for k, v in e[kind].items():
            if k == "tab":
                ending = None
                if kind != "V":
                    if v in rules["declension"]:
                        decl = rules["declension"][v]
                        ending = decl["ending"]
                        if kind == "Pro":
                            dd = decl["declension"]
                            if "pe" in dd[0]:
                                pe = dd[0]["pe"]
                                if pe != 3 and all(x.get("pe") == pe for x in dd[1:]):
                                    tabpe = pe
                        elif kind == "N" and v in self.plural_tabs[classlang]:
                            plural = True
                else:
                    if v in rules["conjugation"]:
                        ending = rules["conjugation"][v]["ending"]
                    else:
                        ending = ""
                        warn = True  # bad lexicon table
                if ending is None or not lemma.endswith(ending):
                    if kind not in ("Adv", "C", "P"):
                        warn = True  # bad lexicon table
                items.append(["tab", v, tabpe, plural])
            else:
                items.append([k, v])
        return {"items": [i[:2] for i in items], "tabpe": tabpe, "plural": plural, "warn": warn,
                "id": "%s:%s:%s:%s" % (lexlang, classlang, kind, lemma)}

    def novalue(self, lexlang, lemma):
        e = self.lex[lexlang].get(lemma)
        if e is not None and "value" in e:
            return {"value": e["value"], "ord": "A" in e}
        return None


_LEX = None


def lexdata():
    global _LEX
    if _LEX is None:
        _LEX = Lex()
    return _LEX


# --------------------------------------------------------------------------------------------- generator

PUNCT = [",", ".", "!", "?", ":", ";", "(", "[", "{", '"', "'", "*", "«", "...", " -- ", "x", ""]
QWORDS = ["hello", "two words", "l'été", "œuvre", "", "Zoé", "a-b", "100%", "<b>", "x_y"]
# (a lemma that is a lone double quote prints as `Q(""")`: two of them in one expression delimit a triple-quoted
#  string — triple quotes are outside the model and are not generated)
# unusual characters (non-printable ones of the BMP and above it, printable astral ones): drawn from the alphabet of
# harness/translate/options.py, whose isprintable() table the model's repr uses
from harness.translate.options import CHAR_ALPHABET  # noqa: E402
SPECIAL = [chr(cp) for cp in CHAR_ALPHABET]
QWORDS += ["a" + c + "b" for c in SPECIAL] + [SPECIAL[i] + SPECIAL[-1 - i] for i in range(0, len(SPECIAL), 3)]
PUNCT += [c for c in SPECIAL[::2]] + ["(" + SPECIAL[-2], SPECIAL[7] + "»"]
QBAD = ['say "hi"', 'a"', 'x"y', 'back\\slash', 'tab\\there', 'end\\', 'q\\q', "it's \"x\"", 'a\\"b', "C:\\new"]
TAGS = [("b", None), ("i", {}), ("a", {"href": "http://x.org/?a=1&b=2"}), ("span", {"class": "c d", "id": "n1"}),
        ("p", {"title": "it's"}), ("div", {"data-x": 'say "hi"'}), ("a b", None)]
TAGS += [("t" + c, None) for c in SPECIAL[::3]] + [("u" + c, {"k" + SPECIAL[(i * 5) % len(SPECIAL)]: "v" + c})
                                                  for i, c in enumerate(SPECIAL[1::2])]
TAGSBAD = [('q"t', None), ('q"t', {"k": "v"}), ("b\\c", {"k": "v"})]
DATES = ["2024-01-05", "1999-12-28T23:59:58", "2023-07-14 00:00:00", "2024-02-28T12:00:00", "2000-01-01 12:30:00"]
NUMS = [0, 1, 2, 3, 21, 100, 1000, 1234567, -5, "1", "25", "3.5", "1000", "-2", "+7", "12."]
NEGFR = ["plus", "jamais", "rien", "personne", "guère"]

HEADS = {"NP": ("N", "NP"), "VP": ("V", "VP"), "PP": ("P", "PP"), "AP": ("A", "AP"), "AdvP": ("Adv", "AdvP"),
         "S": ("NP", "N", "CP", "Pro", "VP", "V"), "SP": ("NP", "N", "CP", "Pro", "VP", "V"), "CP": ()}

WILD = dict(addhead=True, mixed=0.07, nodt=True, derived=True, qbad=0.2, canonical=False, cpprop=True, adds_first=False,
            adjstable=False, noarg_invalid=True, invalid=0.03, density=[0, 0, 0, 1, 1, 2, 3], padd=0.12)
CLEAN = dict(addhead=False, mixed=0.0, nodt=False, derived=False, qbad=0.0, canonical=True, cpprop=False, adds_first=True,
             adjstable=True, noarg_invalid=False, invalid=0.0, density=[0, 0, 1, 1, 2, 2, 3], padd=0.12)
PROFILES = {
    "clean": (CLEAN, 45),
    "othercur": (CLEAN, 8),                                      # decoded under the other current language
    "mixed": (dict(CLEAN, mixed=0.12), 6),                       # sub-expressions in the other language
    "nodt": (dict(CLEAN, nodt=True), 8),                         # NO / DT terminals, dOpt, nat
    "quotes": (dict(CLEAN, qbad=0.5), 3),                        # quote / backslash in a lemma or a tag name
    "noncanon": (dict(CLEAN, canonical=False), 4),               # repeated / interleaved option calls
    "cpprop": (dict(CLEAN, cpprop=True), 3),                     # options propagated through CP / coord
    "preadd": (dict(CLEAN, adds_first=False, padd=0.3), 3),      # options called before add()
    "addhead": (dict(CLEAN, addhead=True, padd=0.3), 3),         # the head of a phrase attached by add()
    "adjorder": (dict(CLEAN, adjstable=False), 2),               # adjectives on the wrong side of the noun
    "adjmove": (dict(CLEAN, padd=0.0), 4),                       # ONE adjective that Phrase.add has to reposition
    "noarg": (dict(CLEAN, noarg_invalid=True), 1),               # tn() without argument
    "derived": (dict(CLEAN, derived=True), 3),                   # props derived from the lexicon and re-applicable
    "wild": (WILD, 5),
    "malformed": (dict(WILD, invalid=0.25), 2),
}


class Gen:
    def __init__(self, rng, table):
        self.rng = rng
        self.tab = table
        self.L = lexdata()
        self.pools = self.make_pools()
        self.opts = {o["name"]: o for o in table["options"]}
        self.cfg = WILD

    def make_pools(self):
        """per language and kind: lemmas stratified by the keys of the lexicon entry and presence in the other lexicon;
        each stratum is flagged `derived` when the entry gives a prop that fromJSON re-applies as an option call"""
        L = self.L
        pools = {}
        for lang in ("en", "fr"):
            other = "fr" if lang == "en" else "en"
            strata = {}
            for lemma in sorted(L.lex[lang]):
                e = L.lex[lang][lemma]
                for kind in self.tab["lexKinds"]:
                    if kind in e and isinstance(e[kind], dict):
                        inf = L.info(lang, lang, kind, lemma)
                        if inf is None or inf["warn"]:
                            continue
                        if lemma == "quelques":
                            continue  # PhraseFr.link_DAV_properties replaces the shared `peng` by a string (outside C12)
                        if kind == "N" and L.lex["en"].get(lemma, {}).get("N", {}).get("cnt") == "no":
                            continue  # D("a") + uncountable noun: morphology error at construction (outside C12)
                        o = L.lex[other].get(lemma)
                        keys = tuple(sorted(k for k, _ in inf["items"] if k != "tab"))
                        derived = bool(inf["tabpe"] is not None or inf["plural"] or
                                       any(k in self.tab_methods() for k in keys if k not in ("pe", "n", "g", "t", "aux")))
                        key = (kind, keys, inf["tabpe"], inf["plural"], bool(o and kind in o),
                               e[kind].get("tab") if kind in ("Pro", "D") else None, derived)
                        strata.setdefault(key, []).append(lemma)
            for key, lemmas in strata.items():
                pick = lemmas if len(lemmas) <= 6 else [lemmas[i * len(lemmas) // 6] for i in range(6)]
                pools.setdefault((lang, key[0], key[-1]), []).append(pick)
            pools[(lang, "NOword", False)] = [[w for w in sorted(L.lex[lang]) if "value" in L.lex[lang][w]
                                               and isinstance(L.lex[lang][w]["value"], int)][:40]]
        return pools

    def tab_methods(self):
        return [o["name"] for o in self.tab["options"]] + self.tab["optionListMethods"] + ["tag", "typ", "dOpt", "nat", "maje"]

    def word(self, lang, kind):
        strata = list(self.pools.get((lang, kind, False), []))
        if self.cfg["derived"]:
            d = self.pools.get((lang, kind, True), [])
            if d and self.rng.random() < 0.5:
                strata = d
            else:
                strata = strata + d
        return self.rng.choice(self.rng.choice(strata))

    # ---- terminals
    def term(self, lang, kind, nopts=None):
        r = self.rng
        if kind in ("NO", "DT") and not self.cfg["nodt"]:
            kind = "Q"
        if kind == "Q":
            lemma = r.choice(QBAD) if r.random() < self.cfg["qbad"] else r.choice(QWORDS)
        elif kind == "NO":
            x = r.random()
            lemma = r.choice(NUMS) if x < 0.75 else self.pools[(lang, "NOword", False)][0][r.randrange(40)]
        elif kind == "DT":
            lemma = r.choice(DATES)
            if r.random() < 0.12:
                lemma = {"dt": [2024, r.randint(1, 12), r.randint(1, 28), r.randint(0, 23), r.randint(0, 59), r.randint(0, 59)]}
        else:
            lemma = self.word(lang, kind)
        p = {"k": kind, "lemma": lemma, "lang": lang, "calls": []}
        self.add_calls(p, nopts)
        return p

    def otherlang(self, lang):
        return "fr" if lang == "en" else "en"

    def sub(self, lang):
        """language of a sub-expression: mostly the same"""
        return self.otherlang(lang) if self.rng.random() < self.cfg["mixed"] else lang

    def adj_side(self, a, phrase_lang):
        """side of the noun on which Phrase.add leaves the adjective `a`"""
        pos = None
        inf = self.L.info(a["lang"], a["lang"], "A", norm_lemma(a["lemma"]))
        for k, v in (inf or {"items": []})["items"]:
            if k == "pos":
                pos = v
        for c in a["calls"]:
            if c[0] == "o" and c[1] == "pos" and c[2] in ("pre", "post"):
                pos = c[2]
        if pos is None:
            pos = "pre" if phrase_lang == "en" else "post"
        return pos

    def np(self, lang, depth):
        r = self.rng
        el = []
        if r.random() < 0.8:
            el.append(self.term(self.sub(lang), "D") if r.random() < 0.9 else self.term(lang, "NO"))
        adjs = [self.term(lang, "A") for _ in range(r.choice([0, 0, 1, 1, 2, 3]))]
        noun = self.term(self.sub(lang), "N")
        if self.cfg["adjstable"]:
            el += [a for a in adjs if self.adj_side(a, lang) == "pre"] + [noun] + [a for a in adjs if self.adj_side(a, lang) != "pre"]
        else:
            k = r.randint(0, len(adjs))
            el += adjs[:k] + [noun] + adjs[k:]
        if depth > 0 and r.random() < 0.25:
            el.append(self.pp(self.sub(lang), depth - 1))
        if not self.cfg["adjstable"] and r.random() < 0.1:
            r.shuffle(el)
        return self.phrase(lang, "NP", el, keep=len(el) if self.cfg["adjstable"] and adjs else 0)

    def pp(self, lang, depth):
        return self.phrase(lang, "PP", [self.term(lang, "P"), self.np(lang, depth)])

    def ap(self, lang):
        el = [self.term(lang, "A")]
        if self.rng.random() < 0.4:
            el.insert(0, self.term(lang, "Adv"))
        return self.phrase(lang, "AP", el)

    def vp(self, lang, depth):
        r = self.rng
        el = [self.term(lang, "V")]
        x = r.random()
        if depth > 0:
            if x < 0.4:
                el.append(self.np(self.sub(lang), depth - 1))
            elif x < 0.6:
                el.append(self.pp(lang, depth - 1))
            elif x < 0.7:
                el.append(self.ap(lang))
            elif x < 0.78:
                el.append(self.term(lang, "DT"))
            elif x < 0.86:
                el.append(r.choice(QBAD[:2]) if r.random() < self.cfg["qbad"] else r.choice(QWORDS))  # a bare string child
        if r.random() < 0.25:
            el.append(self.phrase(lang, "AdvP", [self.term(lang, "Adv")]) if r.random() < 0.5 else self.term(lang, "Adv"))
        return self.phrase(lang, "VP", el, keep=1)  # a VP whose first child has no `peng` raises at construction (outside C12)

    def cp(self, lang, depth, what):
        r = self.rng
        el = [self.term(lang, "C")] if r.random() < 0.9 else []
        for _ in range(r.choice([1, 2, 2, 3])):
            el.append(what())
        if r.random() < 0.3:
            r.shuffle(el)
        return self.phrase(lang, "CP", el)

    def subjlike(self, lang, depth):
        r = self.rng
        x = r.random()
        if x < 0.5 or depth <= 0:
            return self.np(lang, depth - 1) if x < 0.35 else self.term(lang, r.choice(["Pro", "Pro", "N", "Q"]))
        if x < 0.75:
            return self.cp(lang, depth - 1, lambda: r.choice([lambda: self.np(lang, 0), lambda: self.term(lang, "N"),
                                                                 lambda: self.term(lang, "Pro"), lambda: self.term(lang, "D"),
                                                                 lambda: self.term(lang, "A")])())
        return self.np(lang, depth - 1)

    def s(self, lang, depth, kind="S"):
        r = self.rng
        el = []
        if kind == "SP" and r.random() < 0.6:
            el.append(self.term(lang, "Pro"))
        if r.random() < 0.9:
            el.append(self.subjlike(self.sub(lang), depth - 1))
        if r.random() < 0.9:
            el.append(self.vp(lang, depth - 1) if r.random() < 0.85 else self.cp(lang, depth - 1, lambda: self.vp(lang, 0)))
        if depth > 1 and r.random() < 0.15:
            el.append(self.s(lang, depth - 2, "SP"))
        return self.phrase(lang, kind, el)

    def hoist(self, p, children, keep):
        """some children are attached by add(), with or without position"""
        r = self.rng
        adds = []
        heads = HEADS.get(p["k"], ())

        def movable(c):
            # in the clean profiles the head of a phrase is given to the constructor (the links set by an earlier
            # add() are kept when the head changes: a history effect, profile `addhead`)
            return self.cfg["addhead"] or not (isinstance(c, dict) and c["k"] in heads)
        while len(children) > keep and r.random() < self.cfg["padd"]:
            if r.random() < 0.5:
                if not movable(children[-1]):
                    break
                adds.append(["add", children.pop(), None])
            else:
                i = r.randrange(keep, len(children))
                if not movable(children[i]):
                    break
                c = children.pop(i)
                adds.append(["add", c, r.choice([i, i, keep, len(children), None])])
        self.add_calls(p)
        if self.cfg["adds_first"]:
            p["calls"] = adds + p["calls"]
        else:
            for a in adds:
                p["calls"].insert(r.randint(0, len(p["calls"])), a)

    def phrase(self, lang, kind, el, keep=0):
        if self.cfg["adjstable"]:
            # Phrase.add moves a misplaced adjective next to the first noun in EVERY kind of phrase: in the clean
            # profiles the adjectives are given on the side where it leaves them
            isk = lambda c, k: isinstance(c, dict) and c["k"] == k
            if any(isk(c, "A") for c in el) and any(isk(c, "N") for c in el):
                rest = [c for c in el if not isk(c, "A")]
                i = next(j for j, c in enumerate(rest) if isk(c, "N"))
                adjs = [c for c in el if isk(c, "A")]
                el[:] = (rest[:i] + [a for a in adjs if self.adj_side(a, lang) == "pre"] + [rest[i]]
                         + [a for a in adjs if self.adj_side(a, lang) != "pre"] + rest[i + 1:])
                keep = len(el)
        p = {"k": kind, "lang": lang, "elems": el, "calls": []}
        self.hoist(p, el, keep)
        return p

    # ---- dependents
    def dep(self, lang, kind, depth):
        r = self.rng
        tk = {"root": ["V", "V", "V", "N", "A"], "subj": ["N", "N", "Pro", "Q"], "det": ["D", "D", "NO"], "mod": ["A", "Adv", "P", "N", "V"],
              "comp": ["N", "P", "A", "Adv", "DT", "Q"], "coord": ["C"]}[kind]
        t = self.term(self.sub(lang), r.choice(tk))
        if r.random() < 0.05:
            t = r.choice(QWORDS)
        deps = []
        if depth > 0:
            if kind == "coord":
                ck = r.choice(["subj", "comp", "mod", "det", "root"])
                for _ in range(r.choice([1, 2, 2, 3])):
                    deps.append(self.dep(lang, ck, depth - 1))
            else:
                tkk = t["k"] if isinstance(t, dict) else "Q"
                if tkk == "V":
                    if r.random() < 0.85:
                        deps.append(self.dep(self.sub(lang), "subj" if r.random() < 0.85 else "coord", depth - 1))
                    if r.random() < 0.6:
                        deps.append(self.dep(lang, "comp", depth - 1))
                    if r.random() < 0.3:
                        deps.append(self.dep(lang, "mod", depth - 1))
                elif tkk in ("N", "Q"):
                    if r.random() < 0.7:
                        deps.append(self.dep(lang, "det", 0))
                    for _ in range(r.choice([0, 0, 1, 2])):
                        deps.append(self.dep(lang, "mod", depth - 1))
                elif tkk == "P":
                    # a head without `peng` (P, Adv, C): Dependent.linkProperties raises for several kinds of
                    # dependents (outside C12) ; the usual prepositional complement is kept
                    d = self.dep(lang, r.choice(["mod", "comp"]), depth - 1)
                    for _ in range(20):
                        if isinstance(d["term"], dict) and d["term"]["k"] in ("N", "Adv", "P", "Q", "DT"):
                            break
                        d = self.dep(lang, r.choice(["mod", "comp"]), depth - 1)
                    else:
                        d = None
                    if d is not None:
                        deps.append(d)
                if r.random() < 0.1:
                    r.shuffle(deps)
        p = {"k": kind, "lang": lang, "term": t, "deps": deps, "calls": []}
        self.hoist(p, deps, 0)
        return p

    # ---- option calls
    def applicable(self, kind):
        res = []
        for o in self.tab["options"]:
            if not o["allowed"] or kind in o["allowed"] or kind in DEPS:
                if kind in ("CP", "coord") and o["name"] not in self.tab["noPropagate"] and not self.cfg["cpprop"]:
                    continue
                res.append(o["name"])
        return res

    def opt_value(self, name):
        r = self.rng
        o = self.opts[name]
        x = r.random()
        if x < 0.9:
            return r.choice(o["valid"])
        if x < 0.95:
            if "" in o["valid"] and (True in o["valid"] or self.cfg["noarg_invalid"]):
                return None  # called without argument
            return r.choice(o["valid"])
        if r.random() < self.cfg["invalid"] * 4:
            return r.choice(["zz", 7, True, False, "", "p"])  # possibly invalid
        return r.choice(o["valid"])

    def typ_value(self, lang):
        r = self.rng
        d = {}
        for _ in range(r.choice([1, 1, 2, 3])):
            k, vals = r.choice(self.tab["typAllowed"])
            v = r.choice(vals)
            if k == "neg" and lang == "fr" and r.random() < 0.3:
                v = r.choice(NEGFR)
            if r.random() < self.cfg["invalid"]:
                v = "zz"
            if isinstance(v, bool) and r.random() < 0.06:
                v = int(v)   # a numeric flag value: stored as the boolean it equals (6301216)
            d[k] = v
        if r.random() < self.cfg["invalid"]:
            d["zz"] = True
        return d

    def dopt_value(self, kind):
        r = self.rng
        keys = self.tab["dOptKeysDT"] if kind == "DT" else self.tab["dOptKeysNO"]
        d = {}
        for _ in range(r.choice([1, 1, 2, 3])):
            k = r.choice(keys)
            if k == "mprecision":
                d[k] = r.choice([0, 1, 3])
            elif k == "rtime":
                d[k] = r.choice([False, "2024-01-02", "2024-01-05T10:00:00", {"dt": [2024, 1, 3, 0, 0, 0]}, {"dt": [2024, 1, 9, 7, 30, 5]}])
            else:
                d[k] = r.random() < 0.5
        if r.random() < self.cfg["invalid"]:
            d[r.choice(["zz", "nat"])] = r.choice(["x", 1])
        return d

    def tag_value(self):
        r = self.rng
        return r.choice(TAGSBAD) if r.random() < self.cfg["qbad"] * 0.5 else r.choice(TAGS)

    def menu(self, kind):
        menu = [("opt", 6), ("list", 2), ("tag", 1)]
        if kind in self.tab["typKinds"]:
            menu.append(("typ", 3))
        if kind in ("NO", "DT"):
            menu += [("dOpt", 5), ("nat", 3)]
        if kind in self.tab["majeKinds"]:
            menu.append(("maje", 1))
        return menu

    def one_call(self, p):
        """any call, possibly repeating an earlier one (the non-canonical histories)"""
        r = self.rng
        kind, lang = p["k"], p["lang"]
        menu = self.menu(kind)
        what = r.choices([m for m, _ in menu], [w for _, w in menu])[0]
        if what == "opt":
            names = self.applicable(kind)
            if r.random() < self.cfg["invalid"]:
                names = [o["name"] for o in self.tab["options"]]  # possibly not applicable: a warning
            if not names:
                return ["o", "cap", True]
            name = r.choice(names)
            return ["o", name, self.opt_value(name)]
        if what == "list":
            return ["o", r.choice(self.tab["optionListMethods"]), r.choice(PUNCT)]
        if what == "tag":
            t = self.tag_value()
            return ["tag", t[0], t[1]]
        if what == "typ":
            return ["typ", self.typ_value(lang)]
        if what == "dOpt":
            return ["dOpt", self.dopt_value(kind)]
        if what == "nat":
            return ["nat", r.choice([True, False, None])]
        return ["maje", r.random() < 0.5]

    def canonical_calls(self, p, n):
        """n groups of calls, one group per prop, each group contiguous: the history that re-applying the props
        in their order reproduces"""
        r = self.rng
        kind, lang = p["k"], p["lang"]
        menu = self.menu(kind)
        used = set()
        calls = []
        for _ in range(n):
            what = r.choices([m for m, _ in menu], [w for _, w in menu])[0]
            if what == "opt":
                names = [x for x in self.applicable(kind) if self.opts[x]["prop"] not in used]
                if not names:
                    continue
                name = r.choice(names)
                used.add(self.opts[name]["prop"])
                calls.append(["o", name, self.opt_value(name)])
            elif what == "list":
                name = r.choice(self.tab["optionListMethods"])
                if name in used:
                    continue
                used.add(name)
                for _ in range(r.choice([1, 1, 2])):
                    calls.append(["o", name, r.choice(PUNCT)])
            elif what == "tag":
                if "tag" in used:
                    continue
                used.add("tag")
                for _ in range(r.choice([1, 1, 2])):
                    t = self.tag_value()
                    calls.append(["tag", t[0], t[1]])
            elif what == "typ":
                if "typ" in used:
                    continue
                used.add("typ")
                calls.append(["typ", self.typ_value(lang)])
            elif what == "dOpt":
                calls.append(["dOpt", self.dopt_value(kind)])
            elif what == "nat":
                calls.append(["nat", r.choice([True, False, None])])
            elif what == "maje":
                if "maje" in used:
                    continue
                used.add("maje")
                calls.append(["maje", r.random() < 0.5])
        return calls

    def add_calls(self, p, n=None):
        r = self.rng
        if n is None:
            n = r.choice(self.cfg["density"])
        if self.cfg["canonical"]:
            p["calls"] += self.canonical_calls(p, n)
        else:
            for _ in range(n):
                p["calls"].append(self.one_call(p))

    def adjmove(self, lang):
        """an NP whose single adjective is given on the side from which Phrase.add moves it (a stable order results):
        English NP(D,N,A) or NP(D,N).add(A); French NP(D,A,N) with a post-posed adjective — alone, inside a sentence of
        the same language, or as a foreign-language NP inside a sentence of the other language"""
        r = self.rng
        nl = lang if r.random() < 0.5 else self.otherlang(lang)   # language of the NP
        a = self.term(nl, "A")
        a["calls"] = [c for c in a["calls"] if not (c[0] == "o" and c[1] == "pos")]
        n = self.term(nl, "N")
        d = [self.term(nl, "D")] if r.random() < 0.8 else []
        np = {"k": "NP", "lang": nl, "elems": [], "calls": []}
        if self.adj_side(a, nl) == "pre":          # English default, French `pos: pre` adjectives: written AFTER the noun
            if r.random() < 0.5:
                np["elems"] = d + [n, a]
            else:
                np["elems"] = d + [n]
                np["calls"] = [["add", a, r.choice([None, len(d) + 1])]]
        else:                                       # post-posed adjective written BEFORE the noun
            if r.random() < 0.6:
                np["elems"] = d + [a, n]
            else:
                np["elems"] = d + [n]
                np["calls"] = [["add", a, len(d)]]
        self.add_calls(np)
        x = r.random()
        if x < 0.2 and nl == lang:
            return np
        vp = self.phrase(lang, "VP", [self.term(lang, "V")], keep=1)
        if x < 0.6:
            return self.phrase(lang, "S", [np, vp], keep=2)
        return self.phrase(lang, "S", [self.term(lang, "Pro"), self.phrase(lang, "VP", [self.term(lang, "V"), np], keep=2)], keep=2)

    def program(self, profile="wild"):
        self.cfg = PROFILES[profile][0]
        r = self.rng
        lang = r.choice(["en", "fr"])
        if profile == "adjmove":
            return self.adjmove(lang)
        x = r.random()
        if x < 0.2:
            kinds = [k for k in TERMS if self.cfg["nodt"] or k not in ("NO", "DT")]
            if profile == "nodt":
                kinds = ["NO", "NO", "DT"]
            return self.term(lang, r.choice(kinds), nopts=r.choice([0, 1, 1, 2, 3, 4]))
        if x < 0.48:
            return self.s(lang, 3)
        if x < 0.62:
            return r.choice([lambda: self.np(lang, 2), lambda: self.vp(lang, 2), lambda: self.pp(lang, 1), lambda: self.ap(lang),
                             lambda: self.cp(lang, 1, lambda: self.np(lang, 0)), lambda: self.s(lang, 2, "SP")])()
        if x < 0.9:
            return self.dep(lang, "root", 3)
        return self.dep(lang, r.choice(DEPS), 2)

    def line(self):
        r = self.rng
        names = list(PROFILES)
        profile = r.choices(names, [PROFILES[n][1] for n in names])[0]
        p = self.program(profile)
        cur = p["lang"]
        if profile == "othercur" or (profile in ("wild", "malformed", "mixed") and r.random() < 0.3):
            cur = self.otherlang(cur)
        return {"prog": p, "cur": cur, "profile": profile}


def nodes(p):
    """all nodes of a program (pre-order), including the arguments of add()"""
    if isinstance(p, str):
        return
    yield p
    for c in p.get("elems", []):
        yield from nodes(c)
    if "term" in p:
        yield from nodes(p["term"])
        for c in p["deps"]:
            yield from nodes(c)
    for c in p["calls"]:
        if c[0] == "add":
            yield from nodes(c[1])


# --------------------------------------------------------------------------------------------- one line on the real code

ROUTES = ("json", "json-text", "source")


def impl_line(im, line):
    """{"warn":true} when the expression is not built without warnings (outside the property's domain); otherwise the
    serializations and, for each route, what decoding under the current language `cur` gives"""
    import copy
    import warnings
    prog, cur = line["prog"], line["cur"]
    root_lang = prog["lang"]
    e, exc, nw = im.captured(lambda: im.build(prog))
    if exc or nw:
        return {"warn": True}, None
    j, s = im.ser(e)
    jt = jtext(j)
    ans = {"warn": False, "j": jt, "s": s}
    j = copy.deepcopy(j)
    e0 = im.build(prog)
    text0 = im.realize(e0, root_lang)
    obs = {"text": text0, "routes": {}}
    for r in ROUTES:
        im.load(cur)
        if r == "json":
            f = lambda: im.P.fromJSON(copy.deepcopy(j))
        elif r == "json-text":
            f = lambda: im.P.fromJSON(json.loads(json.dumps(j)))
        else:
            def f():
                with warnings.catch_warnings():
                    warnings.simplefilter("ignore")
                    return eval(s, dict(im.ns))
        e1, exc, msgs = im.captured(f)
        if exc is None and not isinstance(e1, im.P.Constituent):
            exc = "NotAConstituent"
        if exc:
            ans[r] = {"err": exc}
            obs["routes"][r] = {"err": exc}
            continue
        j1, s1 = im.ser(e1)
        ans[r] = {"json": jtext(j1), "src": s1, "msgs": msgs > 0}
        same = (j1 == j)
        j1 = copy.deepcopy(j1)
        text1 = im.realize(e1, root_lang)   # realization modifies the expression: done last
        obs["routes"][r] = {"text": text1, "json_same": same, "src_same": s1 == s, "j1": j1, "s1": s1}
    obs["j"] = j
    obs["s"] = s
    return ans, obs


# --------------------------------------------------------------------------------------------- model side

def norm_lemma(x):
    return x.replace("œ", "oe").replace("æ", "ae")


def pairs(d):
    return [[k, v] for k, v in d.items()]


def model_prog(p):
    """the program as the driver reads it: dictionaries whose order matters become lists of pairs"""
    if isinstance(p, str):
        return p
    q = {k: v for k, v in p.items() if k not in ("elems", "term", "deps", "calls")}
    if "elems" in p:
        q["elems"] = [model_prog(c) for c in p["elems"]]
    if "term" in p:
        q["term"] = model_prog(p["term"])
        q["deps"] = [model_prog(c) for c in p["deps"]]
    calls = []
    for c in p["calls"]:
        if c[0] == "add":
            calls.append(["add", model_prog(c[1]), c[2]])
        elif c[0] in ("typ", "dOpt"):
            calls.append([c[0], pairs(c[1])])
        elif c[0] == "tag":
            calls.append(["tag", c[1], None if c[2] is None else pairs(c[2])])
        else:
            calls.append(c)
    q["calls"] = calls
    return q


def model_env(prog, table):
    """the lexicon entries the model may look up for this program, under either current language"""
    L = lexdata()
    lex, now = [], []
    seen = set()
    for n in nodes(prog):
        if n["k"] in table["lexKinds"] and isinstance(n["lemma"], str):
            lemma = norm_lemma(n["lemma"])
            for a in ("en", "fr"):
                key = (a, n["k"], lemma)
                if key not in seen:
                    seen.add(key)
                    inf = L.info(a, a, n["k"], lemma)
                    if inf is not None:
                        lex.append([a, n["k"], lemma, inf])
        elif n["k"] == "NO" and isinstance(n["lemma"], str):
            lemma = norm_lemma(n["lemma"])
            for a in ("en", "fr"):
                key = ("NO", a, lemma)
                if key not in seen:
                    seen.add(key)
                    v = L.novalue(a, lemma)
                    if v is not None and isinstance(v["value"], int):
                        now.append([a, lemma, v["value"], v["ord"]])
    return {"lex": lex, "now": now}


def model_line(line, table):
    return {"op": "rt", "cur": line["cur"], "prog": model_prog(line["prog"]), "env": model_env(line["prog"], table)}


# --------------------------------------------------------------------------------------------- the direct oracle

def canonical_history(calls, table):
    """True when re-applying the resulting props in their order replays exactly these calls (adds ignored)"""
    opts = {o["name"]: o for o in table["options"]}
    seen = []
    last = None
    for c in calls:
        if c[0] == "add":
            continue
        if c[0] == "o":
            key = opts[c[1]]["prop"] if c[1] in opts else c[1]
            multi = c[1] in table["optionListMethods"]
        elif c[0] == "tag":
            key, multi = "tag", True
        else:
            key, multi = c[0], False
        if c[0] in ("dOpt", "nat"):
            return False
        if key in seen and not (multi and key == last):
            return False
        if key not in seen:
            seen.append(key)
        last = key
    return True


def features(line, table):
    """syntactic features of the input that are known (DESIGN §5 C12, known_findings.d/C12.json) to defeat a clause"""
    prog, cur = line["prog"], line["cur"]
    L = lexdata()
    opts = {o["name"]: o for o in table["options"]}
    methods = [o["name"] for o in table["options"]] + table["optionListMethods"] + ["tag", "typ", "dOpt", "nat", "maje"]
    f = set()
    for n in nodes(prog):
        k = n["k"]
        if n is prog and n["lang"] != cur:
            f.add("lang")   # the language of the ROOT cannot be printed: the source is evaluated under the current one
        if k == "NO":
            f.add("NO")
            if isinstance(n["lemma"], str) and L.novalue(n["lang"], norm_lemma(n["lemma"])):
                f.add("NO-letters")
        if k == "DT":
            f.add("DT")
            if isinstance(n["lemma"], dict):
                f.add("datetime")
        if k == "Q" and isinstance(n["lemma"], str) and ('"' in n["lemma"] or "\\" in n["lemma"]):
            f.add("quote-lemma")
        if k == "Q" and isinstance(n["lemma"], str) and "\r" in n["lemma"]:
            f.add("cr")
        for c in list(n.get("elems", [])) + ([n["term"]] if "term" in n else []) + [c[1] for c in n["calls"] if c[0] == "add"]:
            if isinstance(c, str) and ('"' in c or "\\" in c):
                f.add("quote-lemma")
            if isinstance(c, str) and "\r" in c:
                f.add("cr")
        if k in table["lexKinds"] and isinstance(n["lemma"], str):
            inf = L.info(n["lang"], n["lang"], k, norm_lemma(n["lemma"]))
            if inf and (inf["tabpe"] is not None or inf["plural"] or any(
                    kk in methods and kk not in ("pe", "n", "g", "t", "aux") for kk, _ in inf["items"] if kk != "tab")):
                f.add("derived")
        if not canonical_history(n["calls"], table):
            f.add("noncanon")
        seen_opt = False
        for c in n["calls"]:
            if c[0] == "add":
                if seen_opt:
                    f.add("preadd")
                if isinstance(c[1], dict) and c[1]["k"] in HEADS.get(k, ()):
                    f.add("addhead")
            else:
                seen_opt = True
            if c[0] == "tag" and c[2] and ('"' in c[1] or "\\" in c[1]):
                f.add("quote-tag")
            if c[0] == "tag" and c[2] and "\r" in c[1]:
                f.add("cr")
            if c[0] == "dOpt" and any(isinstance(v, dict) for v in c[1].values()):
                f.add("datetime")
            if c[0] == "dOpt" and isinstance(c[1].get("rtime"), str):
                f.add("rtime-str")
            if c[0] == "o" and c[1] in opts:
                o = opts[c[1]]
                if k in ("CP", "coord") and c[1] not in table["noPropagate"]:
                    f.add("cpprop")
                    if o["prop"] != o["name"]:
                        f.add("cpprop-alias")
                if c[2] is None and "" in o["valid"] and True not in o["valid"]:
                    f.add("noarg")
        if k in PHRASES and not adj_stable(n, L):
            f.add("adjorder")
    return f


def adj_stable(np, L):
    """no adjective child (given in the constructor or by add) is on the wrong side of the first noun"""
    kids = [c for c in np.get("elems", [])] + [c[1] for c in np["calls"] if c[0] == "add"]
    if any(c[0] == "add" for c in np["calls"]) and any(isinstance(c, dict) and c["k"] == "A" for c in kids):
        return False   # position given by add(): not analysed
    idx = next((i for i, c in enumerate(kids) if isinstance(c, dict) and c["k"] == "N"), None)
    if idx is None:
        return True
    for i, c in enumerate(kids):
        if isinstance(c, dict) and c["k"] == "A":
            pos = None
            inf = L.info(c["lang"], c["lang"], "A", norm_lemma(c["lemma"])) if isinstance(c["lemma"], str) else None
            for kk, v in (inf or {"items": []})["items"]:
                if kk == "pos":
                    pos = v
            for cc in c["calls"]:
                if cc[0] == "o" and cc[1] == "pos" and cc[2] in ("pre", "post"):
                    pos = cc[2]
            if pos is None:
                pos = "pre" if np["lang"] == "en" else "post"
            if (pos == "pre" and i > idx) or (pos == "post" and i < idx):
                return False
    return True


# which clause failures each feature is known to explain: feature -> route -> aspects
ANY = ("text", "json", "source")
EXPLAINS = [
    ("datetime", {"json-text": ("err:TypeError",), "source": ("err:NameError", "json"), "json": ("source",)}),
    ("rtime-str", {"json-text": ("err:TypeError",), "json": ("source",), "source": ()}),
    ("NO-letters", {"source": ("json", "text"), "json": ("json", "source", "text"),
                    "json-text": ("json", "source", "text")}),
    ("lang", {"source": ANY}),
    ("adjorder", {"json": ANY, "json-text": ANY, "source": ANY}),
    ("noarg", {"json": ANY, "json-text": ANY, "source": ANY}),
    ("NO", {"json": ("source",), "json-text": ("source",), "source": ("json",)}),
    ("DT", {"json": ("source",), "json-text": ("source",)}),
    ("derived", {"json": ("source",), "json-text": ("source",)}),
    ("cpprop", {"json": ("source", "text"), "json-text": ("source", "text"), "source": ("text", "json")}),
    ("noncanon", {"json": ("source",), "json-text": ("source",)}),
    ("preadd", {"json": ("text",), "json-text": ("text",), "source": ("text",)}),
    ("addhead", {"json": ("text",), "json-text": ("text",), "source": ("text",)}),
]


def skeleton(j):
    """the tree of a JSON form reduced to constituent types, lemmata and the ORDER of the children"""
    if not isinstance(j, dict):
        return None
    kind = j.get("terminal") if "lemma" in j else j.get("phrase", j.get("dependent"))
    kids = [skeleton(c) for c in j.get("elements", [])] if "phrase" in j else \
        ([skeleton(j.get("terminal"))] + [skeleton(c) for c in j.get("dependents", [])] if "dependent" in j else [])
    return (kind, str(j.get("lemma")) if "lemma" in j else None, tuple(kids))


def oracle(line, ans, obs, table):
    """list of (signature, detail) : the clauses of the property the implementation violates on this input"""
    if ans.get("warn"):
        return []
    fails = []
    feats = None
    seen_json = None
    for r in ROUTES:
        o = obs["routes"][r]
        bad = []
        if "err" in o:
            bad.append(("err:" + o["err"], "decoding raised " + o["err"]))
        else:
            if o["text"] != obs["text"]:
                bad.append(("text", "realizes to %r instead of %r" % (o["text"], obs["text"])))
            if not o["json_same"]:
                bad.append(("json", "toJSON() differs"))
            if not o["src_same"]:
                bad.append(("source", "toSource() is %r instead of %r" % (o["s1"][:300], obs["s"][:300])))
        if r == "json":
            seen_json = [a for a, _ in bad]
        elif r == "json-text" and [a for a, _ in bad] == seen_json:
            continue  # the text route fails exactly as the object route does: the same finding, reported once
        for aspect, detail in bad:
            if feats is None:
                feats = features(line, table)
            here = set(feats)
            # the non-idempotent re-ordering of Phrase.add explains a failure only when the decoded expression really has
            # its children in another order (anything else on such an input is a failure of its own)
            if "adjorder" in here and ("j1" not in o or skeleton(o["j1"]) == skeleton(obs["j"])):
                here.discard("adjorder")
            cause = next((f for f, ex in EXPLAINS if f in here and aspect in ex.get(r, ())), None)
            sig = "%s:%s:%s" % (r, aspect, cause or "unexplained")
            fails.append((sig, "%s [source: %s]" % (detail, str(obs["s"])[:300])))
    return fails


# --------------------------------------------------------------------------------------------- run

_WORKER = None

# snapshot of the option tables (harness/translate/options.py), used ONLY to keep generating inputs when the translator
# can no longer find a construct in the source (that failure itself is reported by the pipeline as a broken tie)
FALLBACK_TABLE = {'optionListMethods': ['a', 'b', 'ba', 'en'], 'deprels': ['root', 'subj', 'det', 'mod', 'comp', 'coord'], 'options': [{'name': 'pe', 'valid': [1, 2, 3, '1', '2', '3'], 'allowed': ['D', 'Pro', 'N', 'NP', 'A', 'AP', 'V', 'VP', 'S', 'SP', 'CP'], 'prop': 'pe'}, {'name': 'n', 'valid': ['s', 'p', 'x'], 'allowed': ['D', 'Pro', 'N', 'NO', 'NP', 'A', 'AP', 'V', 'VP', 'S', 'SP', 'CP'], 'prop': 'n'}, {'name': 'g', 'valid': ['m', 'f', 'n', 'x'], 'allowed': ['D', 'Pro', 'N', 'NP', 'A', 'AP', 'V', 'VP', 'S', 'SP', 'CP'], 'prop': 'g'}, {'name': 't', 'valid': ['p', 'i', 'f', 'ps', 'c', 's', 'si', 'ip', 'pr', 'pp', 'b', 'b-to', 'pc', 'pq', 'cp', 'pa', 'fa', 'spa', 'spq', 'bp', 'bp-to'], 'allowed': ['V', 'VP', 'S', 'SP', 'CP'], 'prop': 't'}, {'name': 'aux', 'valid': ['av', 'êt', 'aê'], 'allowed': ['V', 'VP', 'S', 'SP', 'CP'], 'prop': 'aux'}, {'name': 'f', 'valid': ['co', 'su'], 'allowed': ['A', 'Adv'], 'prop': 'f'}, {'name': 'tn', 'valid': ['', 'refl'], 'allowed': ['Pro'], 'prop': 'tn'}, {'name': 'c', 'valid': ['nom', 'acc', 'dat', 'refl', 'gen'], 'allowed': ['Pro'], 'prop': 'c'}, {'name': 'pos', 'valid': ['post', 'pre'], 'allowed': ['A', 'Adv', 'root', 'subj', 'det', 'mod', 'comp', 'coord'], 'prop': 'pos'}, {'name': 'pro', 'valid': ['', False, True], 'allowed': ['NP', 'PP'], 'prop': 'pro'}, {'name': 'ow', 'valid': ['s', 'p', 'x'], 'allowed': ['D', 'Pro'], 'prop': 'own'}, {'name': 'poss', 'valid': ['', False, True], 'allowed': ['N', 'Q'], 'prop': 'poss'}, {'name': 'cap', 'valid': ['', False, True, 'tit'], 'allowed': [], 'prop': 'cap'}, {'name': 'lier', 'valid': ['', False, True], 'allowed': [], 'prop': 'lier'}], 'noPropagate': ['cap', 'lier', 'pos'], 'jsonSkip': ['pat', 'h', 'cnt', 'niveau', 'ldv'], 'jsonAlias': [['own', 'ow']], 'typAllowed': [['neg', [False, True]], ['pas', [False, True]], ['prog', [False, True]], ['exc', [False, True]], ['perf', [False, True]], ['refl', [False, True]], ['contr', [False, True]], ['maje', [False, True]], ['mod', [False, 'poss', 'perm', 'nece', 'obli', 'will']], ['int', [False, 'yon', 'wos', 'wod', 'woi', 'was', 'wad', 'wai', 'whe', 'why', 'whn', 'how', 'muc', 'tag']]], 'typKinds': ['S', 'SP', 'VP', 'root', 'subj', 'det', 'mod', 'comp', 'coord'], 'dOptKeysDT': ['year', 'month', 'date', 'day', 'hour', 'minute', 'second', 'nat', 'det', 'rtime'], 'dOptKeysNO': ['mprecision', 'raw', 'nat', 'ord', 'rom'], 'natKinds': ['DT', 'NO'], 'majeKinds': ['Pro', 'D'], 'dOptDefaultDT': [['year', True], ['month', True], ['date', True], ['day', True], ['hour', True], ['minute', True], ['second', True], ['nat', True], ['det', True], ['rtime', False]], 'dOptDefaultNO': [['mprecision', 2], ['raw', False], ['ord', False]], 'lexKinds': ['N', 'A', 'Pro', 'D', 'V', 'Adv', 'C', 'P'], 'jsonPhraseKinds': ['NP', 'AP', 'AdvP', 'VP', 'PP', 'CP', 'S', 'SP'], 'jsonDepKinds': ['root', 'det', 'subj', 'comp', 'mod', 'compObj', 'compObl', 'coord'], 'jsonTermKinds': ['N', 'A', 'Pro', 'D', 'Adv', 'V', 'P', 'C', 'DT', 'NO', 'Q']}


def get_table():
    from harness import translate
    from harness.translate import options
    try:
        return options.extract()
    except translate.TranslateError:
        return FALLBACK_TABLE


# the witnesses of the `_refuted` theorems of Props/C12.lean, replayed on the real code in every run
# (name of the theorem, construction program, current language, signature the oracle must report)
WITNESSES = [
    ("json_roundtrip_refuted / json_idempotent_refuted",
     {"k": "root", "lang": "en", "term": "x", "deps": [], "calls": [["o", "tn", None]]}, "en", "json:json:noarg"),
    ("json_text_roundtrip_refuted",
     {"k": "DT", "lang": "en", "lemma": {"dt": [2024, 1, 5, 0, 0, 0]}, "calls": []}, "en", "json-text:err:TypeError:datetime"),
    ("source_roundtrip_refuted / source_stable_refuted",
     {"k": "Q", "lang": "fr", "lemma": "x", "calls": []}, "en", "source:json:lang"),
    ("json_source_stable_refuted",
     {"k": "Q", "lang": "en", "lemma": "x", "calls": [["o", "cap", True], ["o", "cap", False]]}, "en", "json:source:noncanon"),
]


def work(args):
    """one chunk: generate, run the model driver and the implementation, compare, run the oracle"""
    seed, n, driver, profile = args
    import random
    global _WORKER
    if _WORKER is None:
        table = get_table()
        _WORKER = (table, Gen(random.Random(0), table), Impl())
    table, g, im = _WORKER
    g.rng = random.Random(seed if seed != "witnesses" else 0)
    lines = []
    if seed == "witnesses":
        n = len(WITNESSES)
        lines = [{"prog": w[1], "cur": w[2], "profile": "witness"} for w in WITNESSES]
    for _ in range(n - len(lines)):
        if profile:
            p = g.program(profile)
            lines.append({"prog": p, "cur": p["lang"] if profile != "othercur" else g.otherlang(p["lang"]), "profile": profile})
        else:
            lines.append(g.line())
    model = core.run_driver([model_line(l, table) for l in lines], driver)
    res = {"n": n, "diffs": [], "fails": [], "dist": {}, "warn": 0, "samples": [], "kinds": {}, "optkinds": {}, "hashes": []}
    import hashlib
    for l, m in zip(lines, model):
        if "driver_error" in m:
            raise core.Infra("driver error %s on %s" % (m["driver_error"], core.canon(l)[:300]))
        a, obs = impl_line(im, l)
        key = l["profile"] + "/" + l["prog"]["lang"] + ">" + l["cur"]
        res["dist"][key] = res["dist"].get(key, 0) + 1
        if a.get("warn"):
            res["warn"] += 1
        else:
            res["hashes"].append(hashlib.md5(core.canon([l["prog"], l["cur"]]).encode()).hexdigest()[:12])
            for nd in nodes(l["prog"]):
                res["kinds"][nd["k"]] = res["kinds"].get(nd["k"], 0) + 1
                for c in nd["calls"]:
                    nm = c[1] if c[0] == "o" else c[0]
                    if c[0] == "add":
                        nm = "add" if c[2] is None else "add@pos"
                    kk = nm + "/" + nd["lang"]
                    res["optkinds"][kk] = res["optkinds"].get(kk, 0) + 1
        if core.canon(m) != core.canon(a):
            if len(res["diffs"]) < 20:
                res["diffs"].append({"line": l, "model": m, "impl": a})
        for sig, detail in oracle(l, a, obs, table):
            res["fails"].append((sig, l, detail))
        if len(res["samples"]) < 1:
            res["samples"].append({"line": l, "answer": a})
    # keep per signature the smallest input of this chunk
    best = {}
    for sig, l, detail in res["fails"]:
        if sig not in best or len(core.canon(l)) < len(core.canon(best[sig][0])):
            best[sig] = (l, detail)
    res["failcount"] = {}
    for sig, _, _ in res["fails"]:
        res["failcount"][sig] = res["failcount"].get(sig, 0) + 1
    res["fails"] = [(sig, l, d) for sig, (l, d) in best.items()]
    return res


def run(ctx, total=None, profile=None):
    import multiprocessing
    if total is None:
        total = 30000 if ctx.tier == "quick" else 500000
    nproc = min(16, os.cpu_count() or 4)
    chunk = 500 if total <= 50000 else 2500
    jobs = [("witnesses", 0, ctx.driver, None)]
    left = total
    while left > 0:
        n = min(chunk, left)
        jobs.append((ctx.rng.getrandbits(48), n, ctx.driver, profile))
        left -= n
    mp = multiprocessing.get_context("fork")
    with mp.Pool(nproc) as pool:
        results = pool.map(work, jobs, chunksize=1)
    dist, kinds, optkinds, failcount = {}, {}, {}, {}
    warn = 0
    got = {core.canon(l["prog"]): sig for sig, l, _ in results[0]["fails"]}
    allsigs = {}
    for sig, l, _ in results[0]["fails"]:
        allsigs.setdefault(core.canon(l["prog"]), []).append(sig)
    ctx.notes["refutation_witnesses_on_the_real_code"] = {
        w[0]: ("violates as proved: " + w[3]) if w[3] in allsigs.get(core.canon(w[1]), []) else
              ("NOT reproduced (expected %s, got %r)" % (w[3], allsigs.get(core.canon(w[1]), [])))
        for w in WITNESSES}
    for res in results:
        warn += res["warn"]
        for d, src in ((dist, res["dist"]), (kinds, res["kinds"]), (optkinds, res["optkinds"]), (failcount, res["failcount"])):
            for k, v in src.items():
                d[k] = d.get(k, 0) + v
        ctx.cov["evaluations"] += res["n"]
        ctx.cov["traces_validated_against_impl"] += res["n"]
        for h in res["hashes"]:
            ctx.distinct.add(h)
        for s in res["samples"]:
            if len(ctx.cov["samples"]) < 8:
                ctx.cov["samples"].append(s)
        for d in res["diffs"]:
            ctx.diff(d["line"], d["model"], d["impl"])
        for sig, l, detail in res["fails"]:
            ctx.fail(sig, {"op": "rt", "prog": l["prog"], "cur": l["cur"], "profile": l["profile"]}, detail)
    ctx.notes["distribution(profile/lang>cur)"] = dict(sorted(dist.items()))
    ctx.notes["built_with_warnings(outside the domain, warning flag compared only)"] = warn
    ctx.notes["constituent_kinds"] = dict(sorted(kinds.items()))
    ctx.notes["option_calls(kind/lang)"] = dict(sorted(optkinds.items()))
    ctx.notes["clause_failures_by_signature"] = dict(sorted(failcount.items()))
    if hasattr(ctx, "fail_counts"):
        for k, v in failcount.items():
            ctx.fail_counts[k] = max(ctx.fail_counts.get(k, 0), v)
    table = get_table()
    wanted = [o["name"] for o in table["options"]] + table["optionListMethods"] + ["tag", "typ", "dOpt", "nat", "maje", "add", "add@pos"]
    missing = [w + "/" + l for w in wanted for l in ("en", "fr") if optkinds.get(w + "/" + l, 0) == 0]
    ctx.notes["option_kinds_not_hit"] = missing
    if ctx.tier == "thorough" and missing:
        raise core.Infra("thorough tier did not hit every option kind in both languages: %r" % missing)


def search(ctx):
    """deeper search on the implementation when a proof or the correspondence broke: the clean profile (no feature that
    is known to defeat a clause) in both languages, then every profile"""
    run(ctx, total=40000, profile="clean")
    if not ctx.failures:
        run(ctx, total=60000)


def replay(path):
    """re-runs the input of a replay file on the real pyrealb and prints what the oracle sees"""
    d = json.load(open(path, encoding="utf-8"))
    line = d["input"]
    if "input" in line and "prog" not in line:
        line = line["input"]
    table = get_table()
    im = Impl()
    ans, obs = impl_line(im, line)
    print(json.dumps({"answer": ans, "text": (obs or {}).get("text"),
                      "routes": {r: {k: v for k, v in o.items() if k in ("err", "text", "json_same", "src_same", "s1")}
                                 for r, o in ((obs or {}).get("routes") or {}).items()},
                      "oracle": oracle(line, ans, obs, table) if obs else []}, ensure_ascii=False, indent=1, default=str))
    return 0
