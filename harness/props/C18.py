"""C18 — the lemmatization map is sound and complete.  Model: lean/Pyrealb/Model/Lemmatize*.lean ; theorems:
Props/C18.lean.

What runs
* the two REAL maps are built with `lemmatize.buildLemmataMap("en")` / `("fr")` (≈ 108 k + 469 k pairs);
* every lexicon entry (thorough: all; quick: English complete + a seeded 15 % of the French entries stratified by
  table, determiners and pronouns always) is streamed to the model driver (`drv_lemmatize`, op `expand`) with what
  `buildLemmataMap` and the realizer read of it; the model answers the (form, expression) pairs in `addLemma` call
  order, its own realization of every expression, the forms derivable from the entry's tables, and the decidable
  hypotheses of the C18 theorems evaluated on the entry;
* correspondence: the map assembled from the model's pairs (same `addLemma` discipline) is compared with the real map
  key for key and list for list (order included) on the selected entries; the model's realization of every listed
  expression is compared with the real one (text and number of warnings); the model's derivable forms with the
  implementation's;
* direct oracle on the implementation, independent of the model:
  - soundness: every expression object of the real map is realized by the real library and must give exactly the
    form it is listed under; for an essentially reflexive French verb (lexicon `pat == ["réfl"]`): that form preceded
    by its reflexive pronoun (`me te se nous vous`, elided `m' t' s'`) or followed by `-toi -nous -vous`;
  - completeness: every non-null cell of every row of the entry's conjugation table and every row of its declension
    table is asked of the real realizer with the cell's own coordinates (tense/person/number, participle
    gender/number, all features of a declension row); when the realizer answers that very cell without a warning
    the form is one "the entry can take according to its table" and must be a key of the map listing an expression
    with that lemma and part of speech.
  - other language current: every realized pair is realized a second time, and every derivable form rebuilt as
    `pos(lemma, lang)`, while the OTHER language is loaded (both maps built before): same form required.
The decidable hypotheses of the theorems are evaluated by the driver (op `wf`) on EVERY entry in every tier; an entry
failing one always joins the selection.
Signatures: kind | language | pos | table | verb class (pat,aux) | option tuple — the lemma is dropped."""
import ast
import json
import multiprocessing
import re
import sys
import time

from harness import core

META = {
    "ops": "expand,tbl-witness",
    "driver": "drv_lemmatize",
    "translators": ["conj", "decl"],
    "technique": "Lean 4 proof (expansion sound w.r.t. the conjugation/declension models for all tables and lemmas under "
                 "decidable table hypotheses proved by decide +kernel over the generated tables; completeness of the "
                 "expansion w.r.t. the cells of the table) + complete enumeration of both maps as correspondence and oracle",
    "level_text": "Kernel-checked: for every conjugation table, lemma and verb entry satisfying the decidable WF predicate, "
                  "every (form, expression) pair produced by the model of lemmatize.expandConjugation realizes (model of "
                  "TerminalEn/Fr.conjugate, C01) to exactly that form without warning (essentially reflexive French verbs: "
                  "the exact token list pronoun + form); for every declension table and N/A/Adv entry, every pair produced "
                  "by the model of genExp/expandDeclension realizes (model of Terminal.decline, C02) to that form when the "
                  "table's rows are distinguishable by the inferred options (DistinctRows, proved by decide +kernel for "
                  "every generated table of the class with the standard constructor states, four French (table, gender) "
                  "exceptions stated explicitly and absent from the lexicon); for every d*/pn* table the word that is the "
                  "table's ending (le, mon, moi, me ...) expands soundly (decide +kernel); every non-null cell of every row "
                  "is listed or is a participle cell the realizer refuses (pat==[intr] with avoir) — completeness, as repaired "
                  "by /repo commit 73767de; "
                  "declension: every form listed except the plural of an uncountable English noun). Tie: both real "
                  "maps are enumerated completely (thorough tier) and compared pair for pair with the model; every listed "
                  "expression is realized by the real library; every table cell is asked of the real realizer.",
    "level_note": "Trusted: Lean kernel; translators conj/decl; correspondence (differential, complete in the thorough "
                  "tier). Determiners and pronouns: kernel theorem on the shipped tables with the table's ending as lemma; "
                  "entries with pe/g/n of their own are covered by the executed model and the oracle only. The expression's option list is read from "
                  "the library's own `optSource` record.",
    "rule": "one evaluation = one (form, expression) pair of a real map: compared with the model's pair, realized by the "
            "real library and by the model; plus one per table cell asked of the realizer (completeness); non-trivial = "
            "the expression carries at least one option; distinct = distinct (lemma, pos, option list) expressions",
    "assumptions": ["A_optSource: Constituent.optSource records the effective option calls of an expression in order",
                    "A_lang: buildLemmataMap(lang) leaves `lang` current; every realization of the check sets it explicitly"],
    "trusted": ["Constituent.warn wrapped from outside to count warnings (the original is still called, stderr discarded)"],
}

SKIP = ("ldv", "niveau", "value", "Pc")
OPT_RE = re.compile(r"\.(\w+)\(((?:'(?:[^'\\]|\\.)*'|\"(?:[^\"\\]|\\.)*\"|[^()'\"])*)\)")
REFL_PRE = ("me ", "te ", "se ", "nous ", "vous ", "m'", "t'", "s'")
REFL_POST = ("-toi", "-nous", "-vous")
_W = {}
_IMPL = []


# ------------------------------------------------------------------------------------------------ implementation

class Impl:
    """the real pyrealb in-process, warnings counted (one instance per process)"""

    def __init__(self):
        core.ensure_repo_on_path()
        import pyrealb
        from pyrealb.Constituent import Constituent
        self.p = pyrealb
        self.nwarn = 0
        self.depth = 0
        orig = Constituent.warn
        impl = self

        class Null:
            def write(self, x):
                return len(x)

            def flush(self):
                pass

        null = Null()

        def warn(cself, *args):
            if impl.depth == 0:
                impl.nwarn += 1
            impl.depth += 1
            saved = sys.stderr
            sys.stderr = null
            try:
                return orig(cself, *args)
            finally:
                sys.stderr = saved
                impl.depth -= 1

        Constituent.warn = warn

    def load(self, lang):
        (self.p.loadEn if lang == "en" else self.p.loadFr)()

    def realize(self, lang, exp, current=None):
        """exp.realize() with `current` (default: the map's language) loaded -> 'text', 'text\\tWARNINGS', '!Exception'"""
        self.load(current or lang)
        self.nwarn = 0
        self.depth = 0
        try:
            r = exp.realize()
        except Exception as e:  # noqa: an exception is an output
            return "!" + type(e).__name__
        if not isinstance(r, str):
            return "!NotAString"
        return r if self.nwarn == 0 else "%s\t%d" % (r, self.nwarn)

    def build(self, lang, pos, lemma, opts, current=None):
        """pos(lemma).opts… ; with `current` given: pos(lemma, lang) built while the OTHER language is loaded"""
        self.load(current or lang)
        self.nwarn = 0
        self.depth = 0
        t = getattr(self.p, pos)(lemma) if current is None else getattr(self.p, pos)(lemma, lang)
        for k, v in opts:
            t = getattr(t, k)(v)
        return t

    def twin(self, lang, key):
        """what buildLemmataMap(lang) stores for (pos, lemma, options): jsrExpInit + the option calls, `lang` loaded"""
        from pyrealb import lemmatize
        self.load(lang)
        self.nwarn = 0
        self.depth = 0
        t = lemmatize.jsrExpInit(key[0], key[1])
        for k, v in key[2]:
            t = getattr(t, k)(v)
        return t

    def coord(self, lang, pos, lemma, opts, current=None):
        """(realized text, the terminal's own token) when no warning and no exception, else None"""
        try:
            t = self.build(lang, pos, lemma, opts, current)
            nw = self.nwarn
            self.nwarn = 0
            r = t.realize()
            if nw or self.nwarn or not isinstance(r, str):
                return None
            return r, t.realization
        except Exception:  # noqa
            return None


def get_impl():
    if not _IMPL:
        _IMPL.append(Impl())
    return _IMPL[0]


def exp_key(e):
    """(pos, lemma, [[option, value], ...]) of a real expression, from the library's own record of the option calls"""
    opts = []
    src = e.optSource
    pos = 0
    for m in OPT_RE.finditer(src):
        if m.start() != pos:
            return (e.constType, e.lemma, [["?unparsed", src]])
        pos = m.end()
        try:
            v = ast.literal_eval(m.group(2))
        except Exception:  # noqa
            v = "?" + m.group(2)
        opts.append([m.group(1), v])
    if pos != len(src):
        return (e.constType, e.lemma, [["?unparsed", src]])
    return (e.constType, e.lemma, opts)


def opts_str(opts):
    return ",".join("%s=%s" % (k, v) for k, v in opts)


# ------------------------------------------------------------------------------------------------ data

class Data:
    def __init__(self):
        core.ensure_repo_on_path()
        from pyrealb import lemmatize
        from pyrealb.Lexicon import getLexicon, getRules
        impl = get_impl()
        self.maps = {}
        self.canon = {}      # lang -> {form: [(pos, lemma, opts), ...]}
        self.by_lemma = {}   # lang -> {lemma: [(form, index in the form's list), ...]}
        self.lex = {}
        self.rules = {}
        self.t_build = {}
        for lang in ("en", "fr"):
            t0 = time.time()
            m = lemmatize.buildLemmataMap(lang)
            self.t_build[lang] = round(time.time() - t0, 1)
            self.maps[lang] = m
            self.lex[lang] = getLexicon(lang)
            self.rules[lang] = getRules(lang)
            c = {}
            bl = {}
            for form, exps in m.items():
                lst = []
                for i, e in enumerate(exps):
                    k = exp_key(e)
                    lst.append(k)
                    bl.setdefault(k[1], []).append((form, i))
                c[form] = lst
            self.canon[lang] = c
            self.by_lemma[lang] = bl
        impl.load("en")

    def verb_class(self, lang, lemma):
        v = self.lex[lang].get(lemma, {}).get("V")
        if not isinstance(v, dict):
            return ""
        pat = v.get("pat")
        return "pat=%s,aux=%s" % ("-" if pat is None else "+".join(pat), v.get("aux", "-"))

    def tab_of(self, lang, lemma, pos):
        e = self.lex[lang].get(lemma, {}).get(pos)
        t = e.get("tab") if isinstance(e, dict) else None
        return t if isinstance(t, str) else repr(t)

    def sig(self, kind, lang, lemma, pos, opts):
        s = "%s|%s|%s|%s" % (kind, lang, pos, self.tab_of(lang, lemma, pos))
        if pos == "V" and lang == "fr":
            s += "|" + self.verb_class(lang, lemma)
        return s + "|" + opts_str(opts)


def jval(v):
    """a lexicon value on the wire: strings and integers as such, anything else (list, bool, float, None) as a list
    (the model's `LV.other`)"""
    if isinstance(v, bool):
        return [repr(v)]
    if isinstance(v, (str, int)):
        return v
    return [repr(v)]


def v_json(v):
    if not isinstance(v, dict) or not isinstance(v.get("tab"), str):
        return None
    pat = v.get("pat")
    return {"tab": v["tab"], "aux": v.get("aux") if isinstance(v.get("aux"), str) else None,
            "pat": pat if isinstance(pat, list) and all(isinstance(x, str) for x in pat) else None,
            "h": 1 if v.get("h") == 1 else 0}


def entry_line(D, lang, lemma):
    info = D.lex[lang][lemma]
    entry = []
    for k, v in info.items():
        entry.append([k, [[kk, jval(vv)] for kk, vv in v.items()] if isinstance(v, dict) else None])
    return {"op": "expand", "lang": lang, "lemma": lemma, "entry": entry, "V": v_json(info.get("V")),
            "frV": v_json(D.lex["fr"].get(lemma, {}).get("V"))}


# ------------------------------------------------------------------------------------------------ completeness oracle

def cells_conj(D, lang, lemma, v):
    """(cell, pos options) for every non-null cell of every row of the verb's table"""
    tab = v.get("tab") if isinstance(v, dict) else None
    tb = D.rules[lang]["conjugation"].get(tab) if isinstance(tab, str) else None
    if tb is None or "t" not in tb or not lemma.endswith(tb["ending"]):
        return None, []
    radical = lemma[:len(lemma) - len(tb["ending"])]
    out = []
    for t, row in tb["t"].items():
        if row is None:
            continue
        if isinstance(row, str):
            out.append((row, [["t", t]]))
        elif isinstance(row, list) and len(row) == 6:
            for i, c in enumerate(row):
                if c is not None:
                    out.append((c, [["t", t], ["pe", i % 3 + 1], ["n", "p" if i >= 3 else "s"]]))
        elif isinstance(row, list) and len(row) == 4:
            for i, c in enumerate(row):
                if c is not None:
                    out.append((c, [["t", t], ["g", "f" if i % 2 == 1 else "m"], ["n", "p" if i >= 2 else "s"]]))
    return radical, out


FEAT_OPT = {"g": "g", "n": "n", "pe": "pe", "own": "ow", "tn": "tn", "c": "c", "f": "f"}


def cells_decl(D, lang, lemma, pos, e):
    tab = e.get("tab")
    if not isinstance(tab, str):
        return None, []
    tb = D.rules[lang]["declension"].get(tab)
    if tb is None:
        return "", [(lemma, [])] if pos in ("N", "A", "Adv", "D", "Pro", "C", "P", "Q") else []
    if not lemma.endswith(tb["ending"]):
        return None, []
    radical = lemma[:len(lemma) - len(tb["ending"])]
    return radical, [(d["val"], [[FEAT_OPT[k], v] for k, v in d.items() if k in FEAT_OPT]) for d in tb["declension"]]


def derivable(D, impl, lang, lemma):
    """[(form, pos, coordinates)] the entry can take according to its tables, judged by the real realizer"""
    res = []
    ncells = 0
    for pos, e in D.lex[lang][lemma].items():
        if pos in SKIP or not isinstance(e, dict):
            continue
        if pos == "V":
            radical, cells = cells_conj(D, lang, lemma, e)
            for c, opts in cells:
                ncells += 1
                r = impl.coord(lang, "V", lemma, opts)
                if r is not None and r[1] == radical + c:
                    res.append((radical + c, pos, opts))
        else:
            radical, cells = cells_decl(D, lang, lemma, pos, e)
            for c, opts in cells:
                ncells += 1
                if not hasattr(impl.p, pos):
                    continue
                r = impl.coord(lang, pos, lemma, opts)
                if r is not None and r[0] == radical + c:
                    res.append((radical + c, pos, opts))
    return res, ncells


# ------------------------------------------------------------------------------------------------ one chunk

def sound(D, lang, form, key, got):
    """the soundness clause on one pair: `got` is what the real library realized"""
    if got == form:
        return True
    pos, lemma, opts = key
    if lang == "fr" and pos == "V":
        v = D.lex["fr"].get(lemma, {}).get("V")
        if isinstance(v, dict) and v.get("pat") == ["réfl"]:
            for p in REFL_PRE:
                if got == p + form:
                    return True
            for s in REFL_POST:
                if got == form + s:
                    return True
    return False


def work(args):
    lang, lemmas, exe = args
    D = _W["D"]
    impl = get_impl()
    lines = [entry_line(D, lang, l) for l in lemmas]
    t0 = time.time()
    answers = core.run_driver(lines, exe)
    res = {"lang": lang, "t_model": time.time() - t0, "n_pairs": 0, "n_cells": 0, "n_derivable": 0, "model": [],
           "diffs": [], "ndiffs": 0, "fails": {}, "driver_errors": [], "wf_bad": [], "nontrivial": set(), "dist": {},
           "samples": [], "n_refl": 0, "n_info": 0, "n_cross": 0}
    m = D.maps[lang]
    canon = D.canon[lang]
    other = "en" if lang == "fr" else "fr"

    def fail(sig, inp, detail):
        f = res["fails"].get(sig)
        if f is None:
            res["fails"][sig] = [inp, detail, 1]
        else:
            f[2] += 1
            if len(core.canon(inp)) < len(core.canon(f[0])):
                f[0], f[1] = inp, detail

    def diff(inp, mo, im):
        res["ndiffs"] += 1
        if len(res["diffs"]) < 10:
            res["diffs"].append([inp, mo, im])

    for lemma, line, ans in zip(lemmas, lines, answers):
        if "driver_error" in ans:
            res["driver_errors"].append([lemma, ans["driver_error"]])
            continue
        if "err" in ans:
            # the model says buildLemmataMap raises on this entry; the real map exists, so it did not
            diff({"lang": lang, "lemma": lemma}, {"err": ans["err"]}, {"pairs": len(D.by_lemma[lang].get(lemma, []))})
            res["model"].append((lemma, None))
            continue
        bad = [x for x in ans["wf"] if not x.startswith("info:")]
        if bad:
            res["wf_bad"].append([lang, lemma, bad])
        res["n_info"] += len(ans["wf"]) - len(bad)
        mpairs = ans["pairs"]
        res["model"].append((lemma, [(p[0], p[1], json.dumps(p[2], ensure_ascii=False)) for p in mpairs]))
        # model realization of each expression, by (form, pos, opts)
        mreal = {}
        for p in mpairs:
            mreal.setdefault((p[0], p[1], json.dumps(p[2], ensure_ascii=False)), p[3])
        # ---- soundness oracle + realization correspondence on the REAL pairs of this lemma
        for form, i in D.by_lemma[lang].get(lemma, []):
            e = m[form][i]
            key = canon[form][i]
            got = impl.realize(lang, e)
            res["n_pairs"] += 1
            text = got.split("\t")[0]
            if key[2]:
                res["nontrivial"].add((lemma, key[0], opts_str(key[2])))
            kind = "exception" if got.startswith("!") else ("bracket" if got.startswith("[[") else
                                                             ("warned" if "\t" in got else "form"))
            dk = "%s,%s,%s" % (lang, key[0], kind)
            res["dist"][dk] = res["dist"].get(dk, 0) + 1
            inp = {"lang": lang, "lemma": lemma, "pos": key[0], "opts": key[2], "form": form,
                   "entry": line["entry"]}
            if not sound(D, lang, form, key, text):
                fail(D.sig("unsound", lang, lemma, key[0], key[2]), inp,
                     "listed under %r but realizes as %r" % (form, got))
            else:
                if text != form:
                    res["n_refl"] += 1
                # a fresh twin of the listed expression (lemmatize.jsrExpInit + the same option calls, built with the
                # map's language loaded — the listed object itself is not realized twice: a second realize() of one
                # object is another property) realized while the OTHER language is current, both maps having been
                # built before, as in a bilingual application: the form does not depend on the current language
                gotx = impl.realize(lang, impl.twin(lang, key), current=other)
                res["n_cross"] += 1
                if not sound(D, lang, form, key, gotx.split("\t")[0]):
                    fail(D.sig("unsound-other-language-current", lang, lemma, key[0], key[2]), dict(inp, current=other),
                         "listed under %r; realizes as %r with %s loaded (as %r with %s loaded)" % (form, gotx, other, got, lang))
            mr = mreal.get((form, key[0], json.dumps(key[2], ensure_ascii=False)))
            if mr is not None and mr != got:
                diff(inp, {"real": mr}, {"real": got})
            if len(res["samples"]) < 2 and res["n_pairs"] % 997 == 1:
                res["samples"].append([{k: inp[k] for k in ("lang", "lemma", "pos", "opts", "form")}, got])
        # ---- completeness oracle + derivable correspondence
        der, ncells = derivable(D, impl, lang, lemma)
        res["n_cells"] += ncells
        res["n_derivable"] += len(der)
        for form, pos, opts in der:
            if hasattr(impl.p, pos):
                rx = impl.coord(lang, pos, lemma, opts, current=other)
                res["n_cross"] += 1
                if rx is None or (rx[1] if pos == "V" else rx[0]) != form:
                    fail(D.sig("form-other-language-current", lang, lemma, pos, opts),
                         {"lang": lang, "lemma": lemma, "pos": pos, "coordinates": opts, "form": form, "current": other,
                          "entry": line["entry"]},
                         "%s(%r,%r) with %s gives %r with %s loaded, %r with %s loaded" % (
                             pos, lemma, lang, opts_str(opts), rx, other, form, lang))
            lst = canon.get(form)
            if lst is None or not any(k[0] == pos and k[1] == lemma for k in lst):
                fail(D.sig("incomplete", lang, lemma, pos, opts),
                     {"lang": lang, "lemma": lemma, "pos": pos, "coordinates": opts, "form": form, "entry": line["entry"]},
                     "%s(%r) with %s realizes as %r, which is %s" % (
                         pos, lemma, opts_str(opts), form,
                         "not a key of the map" if lst is None else "a key listing no %s expression of %r" % (pos, lemma)))
        md = sorted([d[0], d[1]] for d in ans["derivable"])
        idr = sorted([f, p] for f, p, _ in der)
        if md != idr:
            diff({"lang": lang, "lemma": lemma, "what": "derivable"},
                 {"only_model": [x for x in md if x not in idr][:5]}, {"only_impl": [x for x in idr if x not in md][:5]})
    res["nontrivial"] = len(res["nontrivial"])
    return res


# ------------------------------------------------------------------------------------------------ selection

def gender_risk(D, lang, info):
    """a noun/adjective entry of fixed gender whose declension table has lines of another gender: the small class on
    which genExp's fall-through (bare expression for a gender-mismatched line) and the dedup of endings can bite"""
    for pos in ("N", "A"):
        e = info.get(pos)
        if isinstance(e, dict) and e.get("g") in ("m", "f") and isinstance(e.get("tab"), str):
            tb = D.rules[lang]["declension"].get(e["tab"])
            if tb and any(d.get("g") not in (None, e["g"]) for d in tb["declension"]):
                return True
    return False


def wf_work(args):
    """the decidable hypotheses of the C18 theorems on a chunk of entries (driver op `wf`, model side only)"""
    lang, lemmas, exe = args
    D = _W["D"]
    lines = [dict(entry_line(D, lang, l), op="wf") for l in lemmas]
    out = []
    for l, a in zip(lemmas, core.run_driver(lines, exe)):
        if "driver_error" in a:
            raise core.Infra("driver error on %s: %s" % (l, a["driver_error"]))
        bad = [x for x in a["wf"] if not x.startswith("info:")]
        if bad:
            out.append((l, bad))
    return out


def select(ctx, D):
    """{lang: [lemma,...]} in lexicon order + description"""
    sel = {"en": list(D.lex["en"].keys())}
    fr = list(D.lex["fr"].keys())
    if ctx.tier == "thorough":
        sel["fr"] = fr
        return sel, "every entry of both lexicons"
    strata = {}
    always = []
    for l in fr:
        info = D.lex["fr"][l]
        poss = [p for p, v in info.items() if p not in SKIP and isinstance(v, dict)]
        if any(p in ("D", "Pro") for p in poss) or gender_risk(D, "fr", info):
            always.append(l)
            continue
        key = tuple((p, repr(info[p].get("tab"))) for p in poss[:1])
        if poss and poss[0] == "V":
            v = info["V"]
            key += (tuple(v.get("pat") or ()) == ("intr",), tuple(v.get("pat") or ()) == ("réfl",), v.get("aux"))
        strata.setdefault(key, []).append(l)
    chosen = set(always)
    for key in sorted(strata, key=repr):
        ls = strata[key]
        k = max(1, (len(ls) * 15 + 99) // 100)
        chosen.update(ctx.rng.sample(ls, k))
    sel["fr"] = [l for l in fr if l in chosen]
    return sel, ("every English entry; French: every D/Pro entry, every noun/adjective of fixed gender whose table has lines "
                 "of another gender, every entry failing a hypothesis of the theorems (op wf on ALL entries) + a seeded 15 %% of each (first pos, table[, verb "
                 "class]) stratum: %d of %d entries, %d strata" % (len(sel["fr"]), len(fr), len(strata)))


# ------------------------------------------------------------------------------------------------ run

def assemble_and_compare(ctx, D, lang, lemmas, model_by_lemma, complete):
    """the model's map, assembled with addLemma's discipline from the per-entry pair lists, against the real map
    restricted to the selected lemmas (order of keys and of each list included)"""
    selected = set(lemmas)
    mm = {}
    for lemma in lemmas:
        pairs = model_by_lemma.get(lemma)
        if pairs is None:
            continue
        for form, pos, optsj in pairs:
            mm.setdefault(form, []).append((pos, lemma, optsj))
    real = {}
    for form, lst in D.canon[lang].items():
        sub = [(k[0], k[1], json.dumps(k[2], ensure_ascii=False)) for k in lst if k[1] in selected]
        if sub:
            real[form] = sub
    nd = 0
    if (list(mm.keys()) != list(real.keys())) if complete else (set(mm) != set(real)):
        mk, rk = set(mm), set(real)
        only_m = [k for k in mm if k not in rk][:5]
        only_r = [k for k in real if k not in mk][:5]
        if only_m or only_r:
            nd += 1
            ctx.diff({"lang": lang, "what": "keys of the map"}, {"only_model": only_m}, {"only_impl": only_r})
        else:
            a, b = list(mm.keys()), list(real.keys())
            i = next(i for i in range(len(a)) if a[i] != b[i])
            nd += 1
            ctx.diff({"lang": lang, "what": "order of the keys", "index": i}, {"key": a[i]}, {"key": b[i]})
    for form, lst in real.items():
        ml = mm.get(form)
        if ml is not None and ml != lst:
            nd += 1
            if nd < 30:
                ctx.diff({"lang": lang, "form": form, "what": "expressions listed under the form"},
                         {"list": ml[:8]}, {"list": lst[:8]})
    return nd, len(real), sum(len(v) for v in real.values())


def run(ctx, deep=False):
    t00 = time.time()
    D = Data()
    _W["D"] = D
    ctx.notes["map_build_s"] = D.t_build
    ctx.notes["map_sizes"] = {l: {"forms": len(D.maps[l]), "pairs": sum(len(v) for v in D.maps[l].values())} for l in D.maps}
    # every lemma of an expression must be a lexicon key (the per-entry index relies on it)
    for lang in ("en", "fr"):
        stray = [l for l in D.by_lemma[lang] if l not in D.lex[lang]]
        if stray:
            ctx.fail("unsound|%s|lemma-not-a-lexicon-key" % lang, {"lang": lang, "lemmas": stray[:5]},
                     "expressions whose lemma is not a key of the lexicon")
    if deep:
        saved = ctx.tier
        ctx.tier = "thorough"
    sel, scope = select(ctx, D)
    if deep:
        ctx.tier = saved
    # the hypotheses of the theorems are evaluated on EVERY entry in every tier (model side, cheap); an unselected
    # entry that fails one joins the selection, so that the oracle decides on the implementation what the theorem
    # no longer covers
    unsel = {}
    for lang in sel:
        chosen0 = set(sel[lang])
        unsel[lang] = [l for l in D.lex[lang] if l not in chosen0]
    wjobs = []
    for lang in unsel:
        ls = unsel[lang]
        n = max(1, min(64, len(ls) // 500))
        wjobs += [(lang, ls[i::n], ctx.driver) for i in range(n) if ls[i::n]]
    added = {}
    if wjobs:
        with multiprocessing.get_context("fork").Pool(16) as pool:
            for (lang, _, _), out in zip(wjobs, pool.map(wf_work, wjobs, chunksize=1)):
                for l, bad in out:
                    added.setdefault(lang, {})[l] = bad
        for lang, d in added.items():
            extra = set(d)
            chosen = set(sel[lang]) | extra
            sel[lang] = [l for l in D.lex[lang] if l in chosen]
    ctx.notes["hypothesis_sweep_of_unselected_entries"] = {
        "entries": {k: len(v) for k, v in unsel.items()}, "joined_the_selection": {k: dict(list(v.items())[:20]) for k, v in added.items()}}
    # table-level witnesses of the `_tbl` theorems (executable twins)
    w = core.run_driver([{"op": "tbl-witness"}], ctx.driver)[0]
    ctx.notes["tbl_witnesses"] = w.get("bad", [])[:40]
    jobs = []
    for lang in ("fr", "en"):
        ls = sel[lang]
        n = max(16, min(400, len(ls) // 150))
        for i in range(n):
            c = ls[i::n]
            if c:
                jobs.append((lang, c, ctx.driver))
    t0 = time.time()
    mp = multiprocessing.get_context("fork")
    with mp.Pool(16) as pool:
        results = pool.map(work, jobs, chunksize=1)
    wall = time.time() - t0
    fails = {}
    dist = {}
    tot = {"pairs": 0, "cells": 0, "derivable": 0, "ndiffs": 0, "nontrivial": 0, "refl": 0, "info": 0, "cross": 0}
    wf_bad = []
    model_by_lemma = {"en": {}, "fr": {}}
    for r in results:
        if r["driver_errors"]:
            raise core.Infra("driver error: %r" % r["driver_errors"][:3])
        tot["pairs"] += r["n_pairs"]
        tot["cells"] += r["n_cells"]
        tot["derivable"] += r["n_derivable"]
        tot["ndiffs"] += r["ndiffs"]
        tot["nontrivial"] += r["nontrivial"]
        tot["refl"] += r["n_refl"]
        tot["cross"] += r["n_cross"]
        tot["info"] += r["n_info"]
        wf_bad += r["wf_bad"]
        for lemma, pairs in r["model"]:
            model_by_lemma[r["lang"]][lemma] = pairs
        for k, v in r["dist"].items():
            dist[k] = dist.get(k, 0) + v
        for inp, mo, im in r["diffs"]:
            ctx.diff(inp, mo, im)
        for sig, (inp, detail, cnt) in r["fails"].items():
            f = fails.get(sig)
            if f is None:
                fails[sig] = [inp, detail, cnt]
            else:
                f[2] += cnt
                if len(core.canon(inp)) < len(core.canon(f[0])):
                    f[0], f[1] = inp, detail
        for inp, got in r["samples"]:
            if len(ctx.cov["samples"]) < 12:
                ctx.cov["samples"].append({"line": inp, "answer": got})
    mapdiffs = {}
    for lang in ("en", "fr"):
        # the order of the keys is that of first insertion by ANY entry: comparable only when every entry is selected
        nd, nforms, npairs = assemble_and_compare(ctx, D, lang, sel[lang], model_by_lemma[lang],
                                                  len(sel[lang]) == len(D.lex[lang]))
        mapdiffs[lang] = {"diffs": nd, "forms_compared": nforms, "pairs_compared": npairs}
    ctx.cov["evaluations"] += tot["pairs"] + tot["cells"] + tot["cross"]
    ctx.cov["traces_validated_against_impl"] += tot["pairs"] + tot["cells"]
    base = len(ctx.distinct)
    ctx.distinct.update(range(base, base + tot["nontrivial"]))
    for sig, (inp, detail, cnt) in sorted(fails.items()):
        ctx.fail(sig, inp, "%s  [%d case(s) of this run share the signature]" % (detail, cnt))
        ctx.fail_counts[sig] = cnt
    ctx.notes["selection"] = scope
    ctx.notes["entries"] = {l: len(sel[l]) for l in sel}
    ctx.notes["pairs_realized"] = tot["pairs"]
    ctx.notes["reflexive_relaxation_used"] = tot["refl"]
    ctx.notes["realizations_with_the_other_language_current"] = tot["cross"]
    ctx.notes["table_cells_asked"] = tot["cells"]
    ctx.notes["derivable_forms"] = tot["derivable"]
    ctx.notes["map_comparison"] = mapdiffs
    ctx.notes["model_vs_impl_diffs"] = tot["ndiffs"]
    ctx.notes["sweep_wall_s"] = round(wall, 1)
    ctx.notes["total_wall_s"] = round(time.time() - t00, 1)
    ctx.notes["distribution(lang,pos,outcome)"] = dict(sorted(dist.items()))
    # entries that fail a decidable hypothesis of the C18 theorems (the theorems say nothing about them; the
    # enumeration above still covers them), and entries whose constructor state is not a standard one
    ctx.notes["hypotheses_not_met"] = {"entries": len(wf_bad), "first": wf_bad[:40]}
    ctx.notes["entries_with_non_standard_constructor_state"] = tot["info"]
    if w.get("bad"):
        ctx.proof_failures.append({"theorem": "tbl-witness", "msg": "table elements failing a _tbl theorem: %r" % w["bad"][:10]})
    ctx.notes["failing_signatures"] = {s: f[2] for s, f in sorted(fails.items())}
    if ctx.tier == "thorough" or deep:
        ctx.exhaustive = True
        ctx.notes["exhaustive_scope"] = ("every (form, expression) pair of buildLemmataMap('en') and ('fr') "
                                         "(%d pairs) and every table cell of every lexicon entry (%d cells)"
                                         % (tot["pairs"], tot["cells"]))
    else:
        ctx.notes["exhaustive_scope"] = "English map complete; French sampled (see selection)"


def search(ctx):
    """a proof or the correspondence broke: the complete space on the implementation"""
    if ctx.tier != "thorough":
        run(ctx, deep=True)


def replay(path):
    d = json.load(open(path, encoding="utf-8"))
    inp = d.get("input", d)
    if "input" in inp and "lang" not in inp:
        inp = inp["input"]
    impl = get_impl()
    from pyrealb import lemmatize
    lang, lemma, pos = inp["lang"], inp["lemma"], inp["pos"]
    m = lemmatize.buildLemmataMap(lang)
    form = inp["form"]
    listed = [exp_key(e) for e in m.get(form, [])]
    print("map[%r] = %s" % (form, json.dumps(listed, ensure_ascii=False)))
    cur = inp.get("current")          # the language loaded at realization (None: the map's own)
    if "coordinates" in inp:
        r = impl.coord(lang, pos, lemma, inp["coordinates"], current=cur)
        print("%s(%r%s) with %s realizes as %r%s" % (pos, lemma, "" if cur is None else ", %r" % lang,
                                                     opts_str(inp["coordinates"]), r,
                                                     "" if cur is None else " with %s loaded" % cur))
        if cur is not None:
            ok = r is not None and (r[1] if pos == "V" else r[0]) == form
            print("same form" if ok else "DIFFERENT from %r, the form with %s loaded" % (form, lang))
            return 0 if ok else 1
        ok = r is not None and any(k[0] == pos and k[1] == lemma for k in listed)
        print("complete" if ok else "INCOMPLETE: the form is not listed for this entry")
        return 0 if ok else 1
    t = impl.twin(lang, (pos, lemma, inp["opts"]))
    got = impl.realize(lang, t, current=cur)
    print("%s(%r) with %s realizes as %r%s, listed under %r" % (pos, lemma, opts_str(inp["opts"]), got,
                                                                  "" if cur is None else " with %s loaded" % cur, form))
    return 0 if got == form else 1
