"""C19 — lexicon management.  Model: lean/Pyrealb/Model/LexState.lean ; theorems: Props/C19.lean.

Correspondence: random histories of load* / addToLexicon (2-argument, single-dict, None=remove) / updateLexicon /
getLemma / getLexicon / getRules / getLanguage, with `lang` omitted or given under either current language, on
existing and fresh lemmas, interleaved with the construction + realization of terminals (N/A/V) of the touched
lemmas, are run through the REAL pyrealb **in worker subprocesses** (the lexicons are process-global: nothing leaks
into the checking process) and through the model driver.  After every step both sides report the returned value,
the current language and what changed in the slice of both lexicons (which lemma, which dict OBJECT, its ordered
content, key order); everything outside the slice is compared with the pristine lexicons (deep hash) at the end
of every history (after every step on a sample), as are the rules.
Oracle (independent of the Lean model): a plain dict-of-dicts reference implementation of the property text.
"""
import copy
import gc
import hashlib
import json
import marshal
import os
import random
import subprocess
import sys
import time

from harness import core

META = {
    "ops": "hist",
    "driver": "drv_lexstate",
    "translators": [],
    "technique": "Lean 4 proof (refinement to two independent maps, induction over all call histories, heap of dict "
                 "objects, no-sharing invariant) + differential correspondence on random histories in subprocesses",
    "level_text": "Kernel-checked for ALL histories/states: no history stores one dict object under two keys (invariant, "
                  "since 3c7823e); add/update/remove refine the two-map specification; whole-history refinement; other "
                  "lexicon / other entries untouched (same object, same content); getLemma returns what is stored (a new "
                  "object for a new lemma); lang omitted = current language; unknown lang raises before any change; rules "
                  "never change; a terminal reads the lexicon of its own language whatever is current (since 8586a6a); new "
                  "terminals see the new entry / a removed lemma is unknown hold for lemmas without œ/æ (refuted with a "
                  "ligature witness: Terminal.setLemma looks the lemma up as oe/ae). Tie: model vs the real "
                  "Lexicon.py/Terminal construction on random histories, value + changed-slice + object identity + key "
                  "order per step, frame of everything else per history.",
    "level_note": "Trusted: Lean kernel; the model/implementation correspondence (differential, sampled); the harness "
                  "inflector used to predict the realized form from the rules JSON (simple tables only). Not modelled: "
                  "non-dict infos (e.g. {'w': None}), non-string lemmas, mutation of a stored dict by the caller outside "
                  "the API (the copy made by addToLexicon is shallow: category values stay shared with the caller; "
                  "Lexicon.py never mutates a value), terminal categories other than N/A/V in the tie.",
    "rule": "random histories (4-16 calls) over 18 existing + 7 fresh lemmas, both starting languages; strata: plain, "
            "aliasing (the same caller dict passed again / a stored entry passed again), malformed (lang='de', empty single "
            "dict, load('de')); non-trivial = history with a mutating call whose canonical (history, answers) pair is new",
    "assumptions": ["values stored under a category are opaque to Lexicon.py (dict.update is shallow)",
                    "the caller does not mutate a dict it has passed, except through the API"],
    "trusted": ["worker subprocesses record Constituent.warn arguments and the value returned to Terminal.setLemma by "
                "getLemma (instrumentation of the implementation side only; realization and warnings are the observables "
                "used by the oracle)"],
}

FRESH = ["zorgly", "blixer", "quaxy", "mibler", "zœrgy", "zoergy", "blæxer"]
CATS = ["N", "A", "V"]
SIG_LIG = "terminal:ligature-lemma:looked-up-as-oe/ae"


def canon(x):
    return json.dumps(x, ensure_ascii=False, sort_keys=True, separators=(",", ":"))


def norm_lemma(s):
    return s.replace("œ", "oe").replace("æ", "ae")


# ------------------------------------------------------------------------------------------------------------
# independent inflector: the realized test form predicted from the rules JSON (simple tables only, else None)
# ------------------------------------------------------------------------------------------------------------

def expected_form(rules, tl, cat, lemma, val):
    """form of the test realization (N: plural; A: fr feminine plural / en comparative; V: en past / fr 1st plural
    present) of a terminal of language `tl` whose lexicon value is `val`; None = not predictable by this inflector"""
    if not isinstance(val, dict) or "tab" not in val:
        return None
    tab = val["tab"]
    if cat in ("N", "A"):
        d = rules["declension"].get(tab)
        if d is None:
            return None
        ending, decl = d["ending"], d["declension"]
        if not lemma.endswith(ending):
            return None
        stem = lemma[:len(lemma) - len(ending)]
        if cat == "N":
            if tl == "en" and val.get("cnt") not in ("yes", "both"):
                return None
            if tl == "fr" and val.get("g") not in ("m", "f"):
                return None
            return noun_form(decl, stem, val.get("g") if tl == "fr" else None, "p")
        if tl == "fr":
            if any(set(e) - {"val", "n", "g"} for e in decl):
                return None
            fp = [e for e in decl if e.get("g") == "f" and e.get("n") == "p"]
            if len(fp) != 1 or any(e.get("g") == "x" or e.get("n") == "x" for e in decl):
                return None
            return stem + fp[0]["val"]
        if tab == "a1":
            return "more " + lemma
        co = [e for e in decl if e.get("f") == "co"]
        if len(co) != 1 or any(set(e) - {"val", "f"} for e in decl):
            return None
        return stem + co[0]["val"]
    if cat == "V":
        c = rules["conjugation"].get(tab)
        if c is None:
            return None
        ending = c["ending"]
        if not lemma.endswith(ending):
            return None
        stem = lemma[:len(lemma) - len(ending)]
        if tl == "en":
            ps = c["t"].get("ps")
            return stem + ps if isinstance(ps, str) else None
        if val.get("pat") == ["réfl"]:          # essentially reflexive: a pronoun is added
            return None
        p = c["t"].get("p")
        if not isinstance(p, list) or len(p) != 6 or not isinstance(p[3], str):
            return None
        return stem + p[3]
    return None


def noun_form(decl, stem, g, n):
    """the form of number n of a noun (French: of gender g) when the table decides it without the scoring of
    bestMatch: rows keyed by n (and g) only, exactly one row for (g, n), no wildcard"""
    if any(set(e) - {"val", "n", "g"} for e in decl) or any(e.get("g") == "x" or e.get("n") == "x" for e in decl):
        return None
    if len(decl) == 1 and "n" not in decl[0] and "g" not in decl[0]:
        return stem + decl[0]["val"]
    rows = [e for e in decl if e.get("n") == n and (g is None or e.get("g", g) == g)]
    if len(rows) != 1 or (g is None and any("g" in e for e in decl)):
        return None
    return stem + rows[0]["val"]


def expected_np(rules, tl, lemma, val):
    """realization of the noun inside a noun phrase with a determiner that agrees with it: French
    NP(D("un"),N(lemma)) -> "un"/"une" + singular ; English NP(D("the"),N(lemma).n("p")) -> "the" + plural"""
    if not isinstance(val, dict) or "tab" not in val:
        return None
    d = rules["declension"].get(val["tab"])
    if d is None or not lemma.endswith(d["ending"]):
        return None
    stem = lemma[:len(lemma) - len(d["ending"])]
    if tl == "fr":
        if val.get("g") not in ("m", "f") or val["tab"] in ("n1", "n15", "n21", "n22", "n26"):
            return None
        f = noun_form(d["declension"], stem, val["g"], "s")
        return None if f is None else ("un " if val["g"] == "m" else "une ") + f
    if val.get("cnt") not in ("yes", "both"):
        return None
    f = noun_form(d["declension"], stem, None, "p")
    return None if f is None else "the " + f


def candidate_vals(rules, L, cat, lemma):
    """well-formed lexicon values for a (new) word of language L whose test form is predictable, distinct forms"""
    out, seen = [], set()
    tabs = rules["conjugation"] if cat == "V" else rules["declension"]
    for tab in tabs:
        if cat == "N" and not tab.startswith("n"):
            continue
        if cat == "A" and not tab.startswith("a" if L == "en" else "n"):
            continue
        if cat == "N":
            if tab in (["n6"] if L == "en" else ["n1", "n15", "n21", "n22", "n26"]):
                continue
            val = {"cnt": "yes", "tab": tab} if L == "en" else {"g": "f" if any(
                e.get("g") == "f" for e in tabs[tab]["declension"]) and not any(
                e.get("g") == "m" for e in tabs[tab]["declension"]) else "m", "tab": tab}
        elif cat == "A":
            val = {"tab": tab}
        else:
            val = {"tab": tab} if L == "en" else {"aux": "av", "tab": tab}
        f = expected_form(rules, L, cat, lemma, val)
        if f is not None and f not in seen:
            seen.add(f)
            out.append(val)
        if len(out) >= 6:
            break
    return out


# ------------------------------------------------------------------------------------------------------------
# the implementation side (runs only inside a worker subprocess)
# ------------------------------------------------------------------------------------------------------------

class NullErr:
    def write(self, s):
        return len(s)

    def flush(self):
        pass


class Impl:
    def __init__(self, pool_seed, pool=None):
        core.ensure_repo_on_path()
        sys.stderr = NullErr()
        import pyrealb
        self.P = pyrealb
        self.L = sys.modules["pyrealb.Lexicon"]
        self.LEX = self.L.__dict__["__lexicon"]
        self.T = sys.modules["pyrealb.Terminal"]
        self.C = sys.modules["pyrealb.Constituent"].Constituent
        self.warns = []
        self.read = []
        orig_warn = self.C.warn
        me = self

        def warn(slf, *args):
            me.warns.append((slf,) + tuple(args))
            return orig_warn(slf, *args)
        self.C.warn = warn
        orig_get = self.T.getLemma

        def getLemma(*a, **k):
            r = orig_get(*a, **k)
            me.read.append(r)
            return r
        self.T.getLemma = getLemma
        self.snapshot()
        if pool is not None:             # replay: the pool is what the history mentions
            self.pool = sorted(pool)
            self.after_pool()
        else:
            self.build_pool(random.Random(pool_seed))

    # ---- pristine state
    def snapshot(self):
        self.pristine = {l: list(self.LEX.lexicon[l].items()) for l in ("en", "fr")}
        self.pos = {l: {k: i for i, (k, _) in enumerate(self.pristine[l])} for l in ("en", "fr")}
        self.rules = {l: self.LEX.rules[l] for l in ("en", "fr")}
        self.lexobj = {l: self.LEX.lexicon[l] for l in ("en", "fr")}
        self.rules_hash = {l: hashlib.md5(marshal.dumps(self.rules[l], 2)).hexdigest() for l in ("en", "fr")}

    def reload(self):
        """after a frame violation: the shared pristine objects may be damaged — read the data files again"""
        d = os.path.join(os.path.dirname(self.L.__file__), "data")
        for l in ("en", "fr"):
            lex = self.LEX.lexicon[l]
            lex.clear()
            lex.update(json.load(open(os.path.join(d, "lexicon-%s.json" % l), encoding="utf-8")))
            r = self.LEX.rules[l]
            r.clear()
            r.update(json.load(open(os.path.join(d, "rules-%s.json" % l), encoding="utf-8")))
        self.snapshot()
        self.after_pool()

    def build_pool(self, rng):
        en, fr = self.LEX.lexicon["en"], self.LEX.lexicon["fr"]

        # words the library's own warning generator is built from ("not found within the English lexicon" = V("find")…):
        # removing one of them makes reporting ANY unknown word recurse (RecursionError) — a robustness matter of the
        # warning generator, not of lexicon management; such lemmas are kept out of the pool
        import re
        reserved = set()
        d = os.path.dirname(self.L.__file__)
        for fn in ("Constituent.py", "ConstituentEn.py", "ConstituentFr.py"):
            reserved |= set(re.findall(r"[\"']([^\"'\s]+)[\"']", open(os.path.join(d, fn), encoding="utf-8").read()))

        def good(l, lemma):
            if lemma in reserved:
                return False
            e = (en if l == "en" else fr)[lemma]
            cats = [c for c in CATS if c in e]
            return bool(cats) and all(expected_form(self.rules[l], l, c, lemma, e[c]) is not None for c in cats) \
                and norm_lemma(lemma) == lemma and lemma.isalpha()
        def draw(keys, ok, n):
            keys = list(keys)
            rng.shuffle(keys)
            out = []
            for k in keys:
                if ok(k):
                    out.append(k)
                    if len(out) == n:
                        break
            return out
        ldv = lambda k: "ldv" in en[k]          # stock English entries with the top-level flag "ldv": true
        both = draw([k for k in en if k in fr], lambda k: good("en", k) and good("fr", k) and ldv(k), 2)
        both += draw([k for k in en if k in fr and k not in both], lambda k: good("en", k) and good("fr", k), 4)
        only_en = draw([k for k in en if k not in fr], lambda k: good("en", k) and ldv(k), 3)
        only_en += draw([k for k in en if k not in fr and k not in only_en], lambda k: good("en", k), 3)
        only_fr = draw([k for k in fr if k not in en], lambda k: good("fr", k), 6)
        self.pool = sorted(both + only_en + only_fr)
        for f in FRESH:
            if f in en or f in fr:
                raise core.Infra("fresh lemma %r exists in a lexicon" % f)
        self.after_pool()

    def after_pool(self):
        self.poolset = set(self.pool) | set(FRESH)
        self.pool_copy = {l: {k: copy.deepcopy(v) for k, v in self.pristine[l] if k in self.poolset} for l in ("en", "fr")}
        self.n_nonpool = {l: len(self.pristine[l]) - len(self.pool_copy[l]) for l in ("en", "fr")}
        self.rest_hash = {l: self.hash_rest(l) for l in ("en", "fr")}
        self.nonpool_keys = {l: [k for k, _ in self.pristine[l] if k not in self.poolset] for l in ("en", "fr")}
        self.nonpool_vals = {l: [v for k, v in self.pristine[l] if k not in self.poolset] for l in ("en", "fr")}
        self.dirty = True
        gc.collect()
        gc.freeze()      # the lexicons hold ~2M objects: keep the cyclic collector away from them

    def hash_rest(self, l):
        ps = self.poolset
        return hashlib.md5(marshal.dumps([kv for kv in self.LEX.lexicon[l].items() if kv[0] not in ps], 2)).hexdigest()

    def reset(self):
        """back to the pristine lexicons; a full rebuild only when the position of a pristine pool lemma was disturbed"""
        for l in ("en", "fr"):
            lex = self.LEX.lexicon[l]
            tail = []
            for k in reversed(lex):
                if k in self.poolset:
                    tail.append(k)
                else:
                    break
            ts = set(tail)
            if self.dirty or any(k not in lex or k in ts for k in self.pool_copy[l]):
                lex.clear()
                lex.update(self.pristine[l])
            else:
                for k in tail:
                    del lex[k]
            for k, v in self.pool_copy[l].items():
                lex[k] = copy.deepcopy(v)
        self.dirty = False

    # ---- observation
    def init_slice(self, lemmas):
        """[[lemma, ref, [[cat,val]…]]…] per language, in lexicon order; refs 0.. (en first)"""
        res, ref = {}, 0
        for l in ("en", "fr"):
            ks = sorted((k for k in lemmas if k in self.pool_copy[l]), key=lambda k: self.pos[l][k])
            res[l] = []
            for k in ks:
                res[l].append([k, ref, [[c, canon(v)] for c, v in self.pool_copy[l][k].items()]])
                ref += 1
        return res

    def ordered_slice_keys(self, l, sl):
        lex = self.LEX.lexicon[l]
        tail = []
        for k in reversed(lex):
            if k in sl:
                tail.append(k)
            else:
                break
        tail.reverse()
        ts = set(tail)
        head = sorted((k for k in sl if k in lex and k not in ts and k in self.pos[l]), key=lambda k: self.pos[l][k])
        # a fresh lemma that is present but neither in the tail nor pristine would be a misplaced key
        stray = [k for k in sl if k in lex and k not in ts and k not in self.pos[l]]
        return head + stray + tail

    def digest(self, sl):
        out, keys = [], {}
        for l in ("en", "fr"):
            ks = self.ordered_slice_keys(l, sl)
            keys[l] = ks
            lex = self.LEX.lexicon[l]
            for k in ks:
                o = lex[k]
                out.append((l, k, self.ref_of(o), self.items(o)))
        return out, keys

    def items(self, o):
        if isinstance(o, dict):
            return [[c, canon(v)] for c, v in o.items()]
        return [["<not-a-dict>", canon(repr(o))]]

    def ref_of(self, o):
        return self.ids.get(id(o), -1)

    def assign_new(self, step, sl):
        """dict objects seen for the first time in the slice were created by the call: they get the next reference
        numbers, in the order in which the call is specified to create them (the items of updateLexicon in order)"""
        order = {k: i for i, (k, _) in enumerate(step.get("items", []))} if step["t"] == "update" else {}
        new = []
        for li, l in enumerate(("en", "fr")):
            lex = self.LEX.lexicon[l]
            for k in sl:
                if k in lex and id(lex[k]) not in self.ids:
                    new.append((order.get(k, 0), li, k, lex[k]))
        new.sort(key=lambda x: x[:3])
        for _, _, _, o in new:
            if id(o) not in self.ids:
                self.ids[id(o)] = self.next_ref
                self.objs[self.next_ref] = o       # kept alive: id() stays unique
                self.next_ref += 1

    def obj(self, d):
        r = d["ref"]
        if r not in self.objs:
            o = {c: json.loads(v) for c, v in d["init"]}
            self.objs[r] = o
            self.ids[id(o)] = r
        return self.objs[r]

    def enc_ret(self, r, sl, step):
        if r is None:
            if step["t"] == "load" and self.warns:
                return {"warned": 1}
            return None
        for l in ("en", "fr"):
            if r is self.LEX.lexicon[l]:
                return {"lexicon": l, "keys": self.ordered_slice_keys(l, sl)}
            if r is self.LEX.rules[l]:
                return {"rules": l}
        if isinstance(r, str):
            return {"lang": r}
        if isinstance(r, dict):
            return {"dict": [self.ref_of(r), self.items(r)]}
        return {"other": repr(r)[:80]}

    # ---- one call
    def call(self, step):
        P, t, lang = self.P, step["t"], step.get("lang")
        kw = {} if lang is None else {"lang": lang}
        if t == "loadEn":
            return P.loadEn()
        if t == "loadFr":
            return P.loadFr()
        if t == "load":
            return P.load(lang)
        if t == "getLanguage":
            return P.getLanguage()
        if t == "add":
            return P.addToLexicon(step["lemma"], self.obj(step["d"]), **kw)
        if t == "addSingle":
            return P.addToLexicon({k: self.obj(d) for k, d in step["items"]}, **kw)
        if t == "remove":
            return P.addToLexicon(step["lemma"], None, **kw)
        if t == "update":
            return P.updateLexicon({k: self.obj(d) for k, d in step["items"]}, **kw)
        if t == "getLemma":
            return P.getLemma(step["lemma"], **kw)
        if t == "getLexicon":
            return P.getLexicon(**kw)
        if t == "getRules":
            return P.getRules(**kw)
        raise core.Infra("unknown step " + t)

    def term(self, step):
        P, cat, lemma, lang = self.P, step["cat"], step["lemma"], step.get("lang")
        ctor = getattr(P, cat)
        del self.warns[:]
        del self.read[:]
        raised = None
        self.C.exceptionOnWarning = bool(step.get("exc"))
        try:
            t = ctor(lemma) if lang is None else ctor(lemma, lang)
        except self.P.PyrealbException:
            # exceptionOnWarning: the first recorded warning is the constructor's own (the wrapper records, then raises)
            if not (step.get("exc") and self.warns):
                return {"k": "err:PyrealbException"}
            raised, t = "PyrealbException", self.warns[0][0]
        except Exception as e:  # noqa
            return {"k": "err:" + type(e).__name__}
        finally:
            self.C.exceptionOnWarning = False
        tl = t.lang()
        mine = [w[1:] for w in self.warns if w[0] is t]       # warnings of this terminal (not of the words of the message)
        nil = [w for w in mine if w and w[0] == "not in lexicon"]
        ans = {"tl": tl, "warns": len(mine)}
        if step.get("exc"):
            ans["raised"] = raised
        if raised and not nil:
            # another warning of the constructor (e.g. "bad lexicon table" for a value that does not fit the language)
            # became the exception: the entry was found
            r = self.read[0] if self.read else None
            ans.update(k="found", v=canon(r[cat]) if isinstance(r, dict) and cat in r else "<nothing-read>", tab=None,
                       form="raised:" + str(mine[0][0] if mine else "?"))
            return ans
        if nil:
            if nil[0][2] is None:
                ans["k"] = "unknown"
            else:
                ans["k"] = "other"
                ans["pos"] = list(nil[0][2])
        else:
            r = self.read[0] if self.read else None               # the first read is the constructor's own
            if self.read and not (isinstance(r, dict) and cat in r) and not mine:
                # nothing usable was read and NOTHING was reported: a silent unknown (kind from what was read)
                ans["k"] = "unknown" if r is None else "other"
                if r is not None:
                    ans["pos"] = [k for k in r if k != "ldv"]
                ans["silent"] = True
            else:
                ans["k"] = "found"
                ans["v"] = canon(r[cat]) if isinstance(r, dict) and cat in r else "<nothing-read>"
                ans["tab"] = t.tab if hasattr(t, "tab") else None
        try:
            if ans["k"] == "found":
                if cat == "N":
                    t.n("p")
                elif cat == "A":
                    t.g("f").n("p") if tl == "fr" else t.f("co")
                elif cat == "V":
                    t.t("p").pe(1).n("p") if tl == "fr" else t.t("ps")
            ans["form"] = ("[[%s]]" % norm_lemma(lemma)) if raised else t.realize()
        except Exception as e:  # noqa
            ans["form"] = "err:" + type(e).__name__
        if ans["k"] == "found" and cat == "N":
            # the noun inside a noun phrase whose determiner agrees with it; then a second NEW terminal with the
            # language named explicitly, created and realized while the OTHER language is current
            ans["np"] = self.np_form(lemma, tl, lang)
            cur = self.LEX.lang
            (P.loadFr if cur == "en" else P.loadEn)()
            try:
                ans["np_other"] = self.np_form(lemma, tl, tl)
            finally:
                (P.loadEn if cur == "en" else P.loadFr)()
        return ans

    def np_form(self, lemma, tl, lang):
        P = self.P
        kw = [] if lang is None else [lang]
        try:
            if tl == "fr":
                return P.NP(P.D("un", tl), P.N(lemma, *kw), lang=tl).realize()
            return P.NP(P.D("the", tl), P.N(lemma, *kw).n("p"), lang=tl).realize()
        except Exception as e:  # noqa
            return "err:" + type(e).__name__

    # ---- one history
    def run_history(self, h, deep_every_step=False, deep=False):
        """returns (answers, frame_problem or None).  Frame: cheap count check after every step, complete shallow
        check (keys/order/objects outside the pool, rules, unmentioned pool lemmas) at the end — after every step when
        deep_every_step — and the deep content hash of everything outside the pool when deep/deep_every_step"""
        self.reset()
        sl = set(h["lemmas"])
        sl |= {norm_lemma(k) for k in sl}
        self.objs, self.ids = {}, {}
        init = self.init_slice(h["lemmas"])
        for l in ("en", "fr"):
            for k, ref, _ in init[l]:
                o = self.LEX.lexicon[l][k]
                self.objs[ref] = o
                self.ids[id(o)] = ref
        self.next_ref = len(init["en"]) + len(init["fr"])
        (self.P.loadEn if h["cur"] == "en" else self.P.loadFr)()
        self.cur_seen = h["cur"]
        before, keys_before = self.digest(sl)
        answers, frame = [], None
        for i, step in enumerate(h["steps"]):
            if step["t"] == "term":
                a = {"term": self.term(step)}
                after, keys_after = self.digest(sl)      # constructing / realizing a terminal must change nothing
                bset = [canon(x) for x in before]
                d = [[x[0], x[1], [x[2], x[3]]] for x in after if canon(x) not in bset]
                present = {(x[0], x[1]) for x in after}
                d += [[x[0], x[1], None] for x in before if (x[0], x[1]) not in present]
                if d or keys_after != keys_before or self.LEX.lang != self.cur_seen:
                    a["d"] = d
                    a["cur"] = self.LEX.lang
                before, keys_before = after, keys_after
                answers.append(a)
                continue
            del self.warns[:]
            argc = []
            if "d" in step:
                argc = [[step["d"]["ref"], self.items(self.obj(step["d"]))]]
            elif "items" in step:
                argc = [[d["ref"], self.items(self.obj(d))] for _, d in step["items"]]
            try:
                raw, exc = self.call(step), None
            except Exception as e:  # noqa
                raw, exc = None, e
            self.assign_new(step, sl)
            r = {"err": type(exc).__name__} if exc is not None else self.enc_ret(raw, sl, step)
            after, keys_after = self.digest(sl)
            bset = [canon(x) for x in before]
            d = [[x[0], x[1], [x[2], x[3]]] for x in after if canon(x) not in bset]
            present = {(x[0], x[1]) for x in after}
            d += [[x[0], x[1], None] for x in before if (x[0], x[1]) not in present]
            a = {"ret": r, "cur": self.LEX.lang, "d": d}
            if argc:
                a["argc"] = argc
            for l in ("en", "fr"):
                if keys_after[l] != keys_before[l]:
                    a["ord_" + l] = keys_after[l]
            answers.append(a)
            self.cur_seen = a["cur"]
            before, keys_before = after, keys_after
            if frame is None:
                frame = self.frame_quick(after, i)
                if frame is None and deep_every_step:
                    frame = self.frame_shallow(h, i)
        if frame is None:
            last = len(h["steps"]) - 1
            frame = self.frame_deep(h, last) if (deep or deep_every_step) else self.frame_shallow(h, last)
        if frame is not None:
            self.dirty = True
        return answers, frame

    def frame_quick(self, after, i):
        for l in ("en", "fr"):
            n_pool_present = sum(1 for k in self.poolset if k in self.LEX.lexicon[l])
            if len(self.LEX.lexicon[l]) != self.n_nonpool[l] + n_pool_present:
                return {"step": i, "what": "number of non-pool keys of lexicon %s changed" % l}
            if self.LEX.rules[l] is not self.rules[l] or self.LEX.lexicon[l] is not self.lexobj[l]:
                return {"step": i, "what": "lexicon or rules object of %s replaced" % l}
        return None

    def frame_shallow(self, h, i):
        """complete for: which non-pool keys exist, their order, which object each maps to; rules by content;
        pool lemmas the history does not mention by content"""
        ps = self.poolset
        sl = set(h["lemmas"]) | {norm_lemma(k) for k in h["lemmas"]}
        for l in ("en", "fr"):
            lex = self.LEX.lexicon[l]
            tmp = dict(lex)                     # C-speed copy, same order; drop the (few) pool keys and compare the rest
            for k in ps:
                tmp.pop(k, None)
            if list(tmp) != self.nonpool_keys[l] or list(tmp.values()) != self.nonpool_vals[l]:
                return {"step": i, "what": "an entry outside the pool changed in lexicon %s (keys, order or objects)" % l}
            if hashlib.md5(marshal.dumps(self.LEX.rules[l], 2)).hexdigest() != self.rules_hash[l] or self.LEX.rules[l] is not self.rules[l]:
                return {"step": i, "what": "rules of %s changed" % l}
            for k in ps - sl:
                if (k in lex) != (k in self.pool_copy[l]) or (k in lex and lex[k] != self.pool_copy[l][k]):
                    return {"step": i, "what": "pool lemma %r not mentioned by the history changed in %s" % (k, l)}
        return None

    def frame_deep(self, h, i):
        f = self.frame_shallow(h, i)
        if f is not None:
            return f
        for l in ("en", "fr"):
            if self.hash_rest(l) != self.rest_hash[l]:
                return {"step": i, "what": "the content of an entry outside the pool changed in lexicon %s (deep hash)" % l}
        return None


# ------------------------------------------------------------------------------------------------------------
# the direct oracle: the property text on plain dict-of-dicts (copies, no objects, no Lean)
# ------------------------------------------------------------------------------------------------------------

class Reference:
    def __init__(self, init, cur):
        self.lex = {l: {k: {c: v for c, v in e} for k, _, e in init[l]} for l in ("en", "fr")}
        self.cur = cur

    def target(self, lang):
        if lang is None:
            return self.cur
        return lang if lang in ("en", "fr") else None

    def apply(self, step):
        """returns the expected returned content: ("none",) / ("entry", dict) / ("lexicon", l) / ("rules", l) /
        ("lang", l) / ("raises",) / ("any",)"""
        t = step["t"]
        if t == "loadEn" or (t == "load" and step["lang"] == "en"):
            self.cur = "en"
            return ("none",)
        if t == "loadFr" or (t == "load" and step["lang"] == "fr"):
            self.cur = "fr"
            return ("none",)
        if t == "load":
            return ("any",)
        if t == "getLanguage":
            return ("lang", self.cur)
        l = self.target(step.get("lang"))
        if l is None:
            return ("raises",)
        lex = self.lex[l]
        if t in ("add", "addSingle"):
            if t == "addSingle":
                if not step["items"]:
                    return ("raises",)
                lemma, d = step["items"][0]
            else:
                lemma, d = step["lemma"], step["d"]
            infos = self.content_of(d)
            if lemma in lex:
                lex[lemma].update(infos)
            else:
                lex[lemma] = dict(infos)
            return ("entry", dict(lex[lemma]))
        if t == "remove":
            lex.pop(step["lemma"], None)
            return ("none",)
        if t == "update":
            for lemma, d in step["items"]:
                lex[lemma] = dict(self.content_of(d))
            return ("none",)
        if t == "getLemma":
            return ("entry", dict(lex[step["lemma"]])) if step["lemma"] in lex else ("none",)
        if t == "getLexicon":
            return ("lexicon", l)
        if t == "getRules":
            return ("rules", l)
        raise core.Infra("reference: unknown step " + t)

    def content_of(self, d):
        # what the caller's dict contains when the call is made (read on the implementation side just before the call)
        return {c: v for c, v in self.argc[d["ref"]]}

    argc = None


def predict_term(ref_lex, rules, tl, cat, lemma):
    """what the property text says about a new terminal of language tl: (kind, form or None=unpredictable)"""
    e = ref_lex[tl].get(lemma)
    if e is None:
        return ("unknown", "[[%s]]" % lemma)
    if cat not in e:
        return ("other", "[[%s]]" % lemma)
    return ("found", expected_form(rules[tl], tl, cat, lemma, json.loads(e[cat])))


def term_agrees(pred, got):
    kind, form = pred
    if got.get("k") != kind:
        return False
    if kind in ("unknown", "other"):
        return got.get("form") in (form, norm_lemma(form)) and got.get("warns", 0) >= 1
    return form is None or got.get("form") == form


def oracle_history(W, h, init, answers):
    """first step at which the implementation departs from the property text: {sig, step, detail} or None"""
    ref = Reference(init, h["cur"])
    sl = set(h["lemmas"]) | {norm_lemma(k) for k in h["lemmas"]}
    state = {l: {k: dict(v) for k, v in ref.lex[l].items()} for l in ("en", "fr")}   # implementation's slice, rebuilt from deltas
    for i, (step, a) in enumerate(zip(h["steps"], answers)):
        if step["t"] == "term":
            got = a["term"]
            lang, cat, lemma = step.get("lang"), step["cat"], step["lemma"]
            if lang not in (None, "en", "fr") or str(got.get("k", "")).startswith("err"):
                if str(got.get("k", "")).startswith("err"):
                    return {"sig": "terminal:constructor-raised:" + got["k"], "step": i, "detail": canon(got)}
                continue
            tl = lang or ref.cur
            pred = predict_term(ref.lex, W.rules, tl, cat, lemma)
            if got.get("tl") != tl:
                return {"sig": "terminal:wrong-language-object", "step": i, "detail": canon(got)}
            lk = "omitted" if lang is None else ("current" if lang == ref.cur else "other")
            if "d" in a:
                return {"sig": "state:term:%s-outcome:lexicon-changed-by-terminal-construction" % got.get("k"), "step": i,
                        "detail": "creating %s(%r) changed %s (current language now %s)" % (cat, lemma, canon(a["d"]), a.get("cur"))}
            if pred[0] in ("unknown", "other") and got.get("k") == pred[0]:
                if step.get("exc") and got.get("raised") != "PyrealbException":
                    return {"sig": "terminal:unknown-report:no-PyrealbException-under-exceptionOnWarning", "step": i,
                            "detail": "%s(%r) is %s: with Constituent.exceptionOnWarning=True the report must raise PyrealbException "
                                      "every time; got %s" % (cat, lemma, pred[0], canon(got))}
                if not step.get("exc") and got.get("warns", 0) < 1:
                    return {"sig": "terminal:unknown-report:no-warning", "step": i,
                            "detail": "%s(%r) is %s: no 'not in lexicon' warning was issued; got %s" % (cat, lemma, pred[0], canon(got))}
            if term_agrees(pred, got):
                if pred[0] == "found" and cat == "N":
                    want = expected_np(W.rules[tl], tl, lemma, json.loads(ref.lex[tl][lemma][cat]))
                    if want is not None and got.get("np") != want:
                        return {"sig": "terminal:noun-in-NP:lang-%s" % lk, "step": i,
                                "detail": "NP(D,N(%r)) in %s under current %s: expected %r got %r" % (lemma, tl, ref.cur, want, got.get("np"))}
                    if want is not None and got.get("np_other") != want:
                        return {"sig": "terminal:noun-in-NP:created-under-other-current-language", "step": i,
                                "detail": "NP(D,N(%r,%r)) created and realized while %s is NOT current: expected %r got %r" % (
                                    lemma, tl, tl, want, got.get("np_other"))}
                continue
            detail = "expected %r got %s" % (pred, canon(got))
            if norm_lemma(lemma) != lemma:
                alt = predict_term(ref.lex, W.rules, tl, cat, norm_lemma(lemma))
                if alt[0] == got.get("k") and (alt[0] != "found" or got.get("v") == ref.lex[tl][norm_lemma(lemma)][cat]):
                    return {"sig": SIG_LIG, "step": i, "detail": detail}
            return {"sig": "terminal:%s-expected:%s-got:lang-%s" % (pred[0], got.get("k"), "omitted" if lang is None else ("current" if lang == ref.cur else "other")),
                    "step": i, "detail": detail}
        # ---- a call
        cur_before = ref.cur
        ref.argc = {r: e for r, e in a.get("argc", [])}
        exp = ref.apply(step)
        r = a["ret"]
        for x in a["d"]:
            l, k, v = x
            if v is None:
                state[l].pop(k, None)
            else:
                state[l][k] = {c: val for c, val in v[1]}
        lang_kind = "omitted" if step.get("lang") is None else ("current" if step.get("lang") == cur_before else "other")
        tag = "%s:lang-%s" % (step["t"], lang_kind)
        if a["cur"] != ref.cur:
            return {"sig": "state:%s:current-language" % tag, "step": i, "detail": "cur %r expected %r" % (a["cur"], ref.cur)}
        # returned value
        bad_ret = None
        if exp[0] == "raises":
            if not (isinstance(r, dict) and "err" in r):
                bad_ret = "an exception was expected"
        elif isinstance(r, dict) and "err" in r:
            bad_ret = "raised " + r["err"]
        elif exp[0] == "none":
            if r is not None:
                bad_ret = "None expected"
        elif exp[0] == "entry":
            if not (isinstance(r, dict) and "dict" in r and {c: v for c, v in r["dict"][1]} == exp[1]):
                bad_ret = "stored entry expected: %s" % canon(exp[1])
        elif exp[0] in ("lexicon", "rules", "lang"):
            if not (isinstance(r, dict) and r.get(exp[0]) == exp[1]):
                bad_ret = "%s of %s expected" % exp
        if bad_ret:
            return {"sig": "return:%s" % tag, "step": i, "detail": "%s; got %s" % (bad_ret, canon(r))}
        # the two lexicons (slice) against the reference
        for l in ("en", "fr"):
            want = {k: v for k, v in ref.lex[l].items() if k in sl}
            if state[l] != want:
                wrong = sorted(k for k in set(state[l]) | set(want) if state[l].get(k) != want.get(k))
                tl = ref.target(step.get("lang"))
                lem = step.get("lemma") or (step["items"][0][0] if step.get("items") else None)
                where = "target" if (l == tl and wrong == [lem]) else ("other-lexicon" if l != tl else "other-entry")
                detail = "lexicon %s lemma(s) %r: got %s expected %s" % (l, wrong, canon({k: state[l].get(k) for k in wrong}),
                                                                          canon({k: want.get(k) for k in wrong}))
                return {"sig": "state:%s:%s" % (tag, where), "step": i, "detail": detail}
    return None


# ------------------------------------------------------------------------------------------------------------
# generation (a pure function of the seed and of the pool)
# ------------------------------------------------------------------------------------------------------------

def fixed_histories(W):
    """the witnesses of the `_refuted` theorems, replayed on the real code on every run (history 1 is the witness of the
    aliasing defect repaired by 3c7823e, histories 2 and 3 of the terminal-language defect repaired by 8586a6a: kept
    as regression tests)"""
    n1 = [["N", canon({"cnt": "yes", "tab": "n1"})]]
    a2 = [["A", canon({"tab": "a2"})]]
    frn = [["N", canon({"g": "m", "tab": "n3"})]]
    hs = [
        {"cur": "en", "stratum": "witness", "steps": [
            {"t": "add", "lemma": "zorgly", "d": {"ref": 1000, "init": n1}, "lang": "en"},
            {"t": "add", "lemma": "zorgly", "d": {"ref": 1000, "init": n1}, "lang": "fr"},
            {"t": "add", "lemma": "zorgly", "d": {"ref": 1001, "init": a2}, "lang": "en"},
            {"t": "getLemma", "lemma": "zorgly", "lang": "fr"}]},
        {"cur": "en", "stratum": "witness", "steps": [
            {"t": "add", "lemma": "zorgly", "d": {"ref": 1000, "init": frn}, "lang": "fr"},
            {"t": "term", "cat": "N", "lemma": "zorgly", "lang": "fr"}]},
        {"cur": "en", "stratum": "witness", "steps": [
            {"t": "add", "lemma": "zorgly", "d": {"ref": 1000, "init": n1}, "lang": "en"},
            {"t": "add", "lemma": "zorgly", "d": {"ref": 1001, "init": frn}, "lang": "fr"},
            {"t": "remove", "lemma": "zorgly", "lang": "fr"},
            {"t": "term", "cat": "N", "lemma": "zorgly", "lang": "fr"}]},
        {"cur": "en", "stratum": "witness", "steps": [
            {"t": "add", "lemma": "zœrgy", "d": {"ref": 1000, "init": n1}, "lang": None},
            {"t": "term", "cat": "N", "lemma": "zœrgy", "lang": None}]},
    ]
    # the unknown report must come EVERY time, in both modes (these two run first: nothing precedes them in the process)
    hs.insert(0, {"cur": "en", "stratum": "witness", "steps": [
        {"t": "term", "cat": "N", "lemma": "zorgly", "lang": None, "exc": True},
        {"t": "term", "cat": "V", "lemma": "zorgly", "lang": None},
        {"t": "term", "cat": "N", "lemma": "zorgly", "lang": "fr"}]})
    hs.insert(1, {"cur": "en", "stratum": "witness", "steps": [
        {"t": "term", "cat": "N", "lemma": "zorgly", "lang": None, "exc": True},
        {"t": "term", "cat": "N", "lemma": "zorgly", "lang": "fr", "exc": True},
        {"t": "add", "lemma": "zorgly", "d": {"ref": 1000, "init": n1}, "lang": None},
        {"t": "term", "cat": "V", "lemma": "zorgly", "lang": None, "exc": True},
        {"t": "remove", "lemma": "zorgly", "lang": None},
        {"t": "term", "cat": "N", "lemma": "zorgly", "lang": None},
        {"t": "term", "cat": "N", "lemma": "zorgly", "lang": None, "exc": True}]})
    for h in hs:
        h["lemmas"] = ["zorgly", "zœrgy"]
    return hs


def gen_history(rng, W, stratum):
    cur = rng.choice(["en", "fr"])
    h = {"cur": cur, "stratum": stratum, "steps": []}
    k = rng.randint(2, 5)
    lemmas = rng.sample(W.pool, min(k, len(W.pool))) + rng.sample(FRESH, rng.randint(1, 3))
    present = {l: {x for x in lemmas if x in W.pool_copy[l]} for l in ("en", "fr")}
    used_refs = []
    next_ref = [1000]
    init = W.init_slice(lemmas)
    # (a stored English entry with the top-level flag "ldv": true is not passed again: as a French entry it is ill-formed
    #  — ConstituentFr.isElidableFr iterates over the categories — which is not this property's business)
    stored_refs = [r for l in ("en", "fr") for _, r, _ in init[l]]
    en_stored = {r for _, r, _ in init["en"]}
    ref_init = {r: e for l in ("en", "fr") for _, r, e in init[l]}     # the content an object had when first seen

    def lang_arg():
        x = rng.random()
        if stratum == "malformed" and x < 0.15:
            return "de"
        if x < 0.4:
            return None
        return "en" if x < 0.7 else "fr"

    def target(lang):
        return cur if lang is None else (lang if lang in ("en", "fr") else cur)

    def infos(L, lemma):
        cats = rng.sample(CATS, rng.choice([1, 1, 1, 2]))
        items = []
        for c in cats:
            cv = W.cand.get((L, c, lemma))
            if cv is None:
                cv = W.cand[(L, c, lemma)] = candidate_vals(W.rules[L], L, c, lemma)
            if cv:                      # only well-formed values (a table of language L whose ending fits the lemma)
                items.append([c, canon(rng.choice(cv))])
        if rng.random() < 0.1 or not items:
            items.append(["Adv", canon({"tab": "b1" if L == "en" else "av"})])
        if L == "en" and rng.random() < 0.3:      # the top-level flag of 1367 stock English entries
            items.insert(rng.randint(0, len(items)), ["ldv", "true"])
        return items

    def dict_arg(L, lemma):
        if stratum == "alias" and rng.random() < 0.45 and (used_refs or stored_refs):
            r = rng.choice(used_refs + stored_refs)
            # (an English entry may carry the top-level flag "ldv": as a French entry it is ill-formed —
            #  ConstituentFr.isElidableFr iterates over the categories — which is not this property's business)
            if L == "en" or not (r in en_stored or any(c == "ldv" for c, _ in ref_init[r])):
                return {"ref": r, "init": ref_init[r]}       # the same Python object again
        r = next_ref[0]
        next_ref[0] += 1
        used_refs.append(r)
        ref_init[r] = infos(L, lemma)
        return {"ref": r, "init": ref_init[r]}

    def pick_lemma(L, want_present=None):
        if want_present is True and present[L]:
            return rng.choice(sorted(present[L]))
        if want_present is False:
            c = [x for x in lemmas if x not in present[L]]
            if c:
                return rng.choice(c)
        return rng.choice(lemmas)

    def term_for(lemma):
        x = rng.random()
        lang = None if x < 0.5 else (cur if x < 0.7 else ("fr" if cur == "en" else "en"))
        if stratum == "malformed" and rng.random() < 0.1:
            lang = "de"
        st = {"t": "term", "cat": rng.choice(CATS), "lemma": lemma, "lang": lang}
        if rng.random() < 0.3:
            st["exc"] = True       # constructed while Constituent.exceptionOnWarning is True
        return st

    n = rng.randint(4, 16)
    while len(h["steps"]) < n:
        x = rng.random()
        lang = lang_arg()
        L = target(lang)
        touched = None
        if x < 0.34:
            lemma = pick_lemma(L, rng.choice([True, False, None]))
            h["steps"].append({"t": "add", "lemma": lemma, "d": dict_arg(L, lemma), "lang": lang})
            if lang != "de":
                present[L].add(lemma)
            touched = lemma
        elif x < 0.44:
            m = rng.choice([1, 1, 2, 3]) if not (stratum == "malformed" and rng.random() < 0.3) else 0
            ls = rng.sample(lemmas, min(m, len(lemmas)))
            h["steps"].append({"t": "addSingle", "items": [[k2, dict_arg(L, k2)] for k2 in ls], "lang": lang})
            if ls and lang != "de":
                present[L].add(ls[0])
                touched = ls[0]
        elif x < 0.54:
            ls = rng.sample(lemmas, min(rng.choice([1, 2, 3]), len(lemmas)))
            h["steps"].append({"t": "update", "items": [[k2, dict_arg(L, k2)] for k2 in ls], "lang": lang})
            if lang != "de":
                present[L].update(ls)
            touched = rng.choice(ls)
        elif x < 0.66:
            lemma = pick_lemma(L, rng.choice([True, True, None]))
            h["steps"].append({"t": "remove", "lemma": lemma, "lang": lang})
            if lang != "de":
                present[L].discard(lemma)
            touched = lemma
        elif x < 0.76:
            h["steps"].append({"t": "getLemma", "lemma": pick_lemma(L), "lang": lang})
        elif x < 0.79:
            h["steps"].append({"t": "getLexicon", "lang": lang})
        elif x < 0.82:
            h["steps"].append({"t": "getRules", "lang": lang})
        elif x < 0.84:
            h["steps"].append({"t": "getLanguage"})
        elif x < 0.92:
            t = rng.choice(["loadEn", "loadFr", "load", "load"])
            if t == "load":
                lg = rng.choice(["en", "fr"]) if stratum != "malformed" else rng.choice(["en", "fr", "de"])
                h["steps"].append({"t": "load", "lang": lg})
                if lg in ("en", "fr"):
                    cur = lg
            else:
                h["steps"].append({"t": t})
                cur = "en" if t == "loadEn" else "fr"
        else:
            h["steps"].append(term_for(rng.choice(lemmas)))
        if touched is not None and rng.random() < 0.75:
            h["steps"].append(term_for(touched))
            if rng.random() < 0.3:
                h["steps"].append(term_for(touched))
    h["lemmas"] = sorted(lemmas)
    return h


def to_line(W, h):
    """the model sees a dict argument as a library object ({"obj": ref}: an initial entry passed again) or as a dict
    of the caller ({"lit": content}; which Python object it is does not matter to the repaired code)"""
    init = W.init_slice(h["lemmas"])
    n_init = len(init["en"]) + len(init["fr"])

    def arg(d):
        return {"obj": d["ref"]} if d["ref"] < n_init else {"lit": d["init"]}
    steps = []
    for st in h["steps"]:
        st = dict(st)
        if "d" in st:
            st["d"] = arg(st["d"])
        if "items" in st:
            st["items"] = [[k, arg(d)] for k, d in st["items"]]
        steps.append(st)
    return {"op": "hist", "cur": h["cur"], "en": init["en"], "fr": init["fr"], "steps": steps}, init


def strip_term(a):
    """what is compared with the model: kind, language object, other categories, the value read"""
    if "term" in a:
        t = a["term"]
        return dict({k: v for k, v in a.items() if k != "term"}, term={k: t[k] for k in ("k", "tl", "pos", "v") if k in t})
    return {k: v for k, v in a.items() if k != "argc"}


# ------------------------------------------------------------------------------------------------------------
# worker
# ------------------------------------------------------------------------------------------------------------

def check_histories(W, hists, driver, deep_ratio, rng, deep_all=False):
    lines, inits = [], []
    for h in hists:
        ln, init = to_line(W, h)
        lines.append(ln)
        inits.append(init)
    model = core.run_driver(lines, driver)
    res = {"n": 0, "steps": 0, "diffs": [], "fails": [], "digests": [], "samples": [], "dist": {}, "frame_checks_per_step": 0}
    for h, ln, init, m in zip(hists, lines, inits, model):
        if "driver_error" in m:
            raise core.Infra("driver error: %s on %s" % (m["driver_error"], canon(ln)[:300]))
        deep = rng.random() < deep_ratio
        answers, frame = W.run_history(h, deep_every_step=deep, deep=deep_all)
        res["n"] += 1
        res["steps"] += len(h["steps"])
        res["frame_checks_per_step"] += 1 if deep else 0
        mutating = any(s["t"] in ("add", "addSingle", "update", "remove") for s in h["steps"])
        if mutating:
            res["digests"].append(hashlib.md5(canon([h["cur"], h["steps"], answers]).encode()).hexdigest())
        if len(res["samples"]) < 2:
            res["samples"].append({"line": h, "answer": answers[:6]})
        st = h.get("stratum", "plain")
        res["dist"]["stratum=" + st] = res["dist"].get("stratum=" + st, 0) + 1
        for s in h["steps"]:
            key = "step=" + s["t"] + ("" if "lang" not in s else (",lang=omitted" if s["lang"] is None else ",lang=given"))
            res["dist"][key] = res["dist"].get(key, 0) + 1
        for a in answers:
            if "term" in a:
                key = "term-outcome=" + str(a["term"].get("k"))
                res["dist"][key] = res["dist"].get(key, 0) + 1
        mine = [strip_term(a) for a in answers]
        if canon(m["res"]) != canon(mine):
            first = next((i for i, (x, y) in enumerate(zip(m["res"], mine)) if canon(x) != canon(y)), None)
            if len(res["diffs"]) < 20:
                res["diffs"].append({"line": h, "first_differing_step": first,
                                     "model": m["res"][first] if first is not None else m["res"],
                                     "impl": mine[first] if first is not None else mine})
        f = oracle_history(W, h, init, answers)
        if frame is not None and f is None:
            f = {"sig": "frame:" + frame["what"].split(" (")[0].replace(" ", "-"), "step": frame["step"], "detail": frame["what"]}
        if frame is not None:
            W.reload()
        if f is not None:
            res["fails"].append({"sig": f["sig"], "input": h, "detail": "step %d: %s" % (f["step"], f["detail"])})
    # every in-place change of an entry outside the pool made by ANY of these histories is still there (reset restores
    # keys and objects, not contents): one deep hash at the end covers them all; on failure find the history
    if not deep_all and hists:
        W.reset()
        if any(W.hash_rest(l) != W.rest_hash[l] for l in ("en", "fr")):
            W.reload()
            again = check_histories(W, hists, driver, 0.0, random.Random(0), deep_all=True)
            got = [f for f in again["fails"] if f["sig"].startswith("frame:")]
            res["fails"] += got or [{"sig": "frame:deep-hash-after-all-histories", "input": hists[0],
                                     "detail": "content outside the pool changed during this worker's histories"}]
    return res


def shrink(W, driver, fail):
    """drop steps while the same signature is reported"""
    h = fail["input"]
    steps = list(h["steps"])
    i = len(steps) - 1
    budget = 60
    while i >= 0 and budget > 0:
        cand = dict(h, steps=steps[:i] + steps[i + 1:])
        budget -= 1
        try:
            ln, init = to_line(W, cand)
            answers, frame = W.run_history(cand)
            f = oracle_history(W, cand, init, answers)
            if frame is not None:
                W.reload()
                if f is None:
                    f = {"sig": "frame:" + frame["what"].split(" (")[0].replace(" ", "-"), "step": frame["step"], "detail": frame["what"]}
        except core.Infra:
            f = None
        if f is not None and f["sig"] == fail["sig"]:
            steps = cand["steps"]
            fail = {"sig": f["sig"], "input": cand, "detail": "step %d: %s" % (f["step"], f["detail"])}
            h = cand
        i -= 1
    return fail


def worker_main():
    job = json.load(sys.stdin)
    W = Impl(job["pool_seed"], job.get("pool"))
    W.cand = {}
    rng = random.Random(job["seed"])
    if job.get("histories") is not None:
        hists = job["histories"]
    else:
        hists = fixed_histories(W) if job.get("with_fixed") else []
        for _ in range(job["n"]):
            x = rng.random()
            hists.append(gen_history(rng, W, "plain" if x < 0.72 else ("alias" if x < 0.88 else "malformed")))
    res = check_histories(W, hists, job["driver"], job.get("deep_ratio", 0.05), rng)
    # shrink one failure per signature
    best = {}
    for f in res["fails"]:
        if f["sig"] not in best or len(canon(f["input"])) < len(canon(best[f["sig"]]["input"])):
            best[f["sig"]] = f
    first = {}
    for f in res["fails"]:
        first.setdefault(f["sig"], f)      # the earliest failure of a worker is the one most likely to be self-contained
    if job.get("shrink", True):
        res["fails"] = [dict(shrink(W, job["driver"], f), original=f, first=first[f["sig"]]) for f in best.values()]
    else:
        res["fails"] = list(best.values())
    if job.get("verbose"):
        res["trace"] = []
        for h in hists:
            ln, init = to_line(W, h)
            m = core.run_driver([ln], job["driver"])[0]
            answers, frame = W.run_history(h, deep_every_step=True)
            if frame is not None:
                W.reload()
            res["trace"].append({"history": h, "model": m.get("res"), "impl": answers, "frame": frame,
                                 "oracle": oracle_history(W, h, init, answers)})
    res["pool"] = W.pool
    sys.stdout.write(json.dumps(res, ensure_ascii=False))


def spawn(job):
    env = dict(os.environ)
    env["PYREALB_REPO"] = core.REPO
    env["PYTHONPATH"] = core.VERIF + os.pathsep + env.get("PYTHONPATH", "")
    p = subprocess.Popen([sys.executable, "-m", "harness.props.C19", "--worker"], cwd=core.VERIF, env=env,
                         stdin=subprocess.PIPE, stdout=subprocess.PIPE, stderr=subprocess.PIPE)
    p.stdin.write(json.dumps(job).encode("utf-8"))
    p.stdin.close()
    return p


def collect(procs, timeout=1500):
    out = []
    t0 = time.time()
    for p in procs:
        try:
            so = p.stdout.read()
            se = p.stderr.read()
            rc = p.wait(timeout=max(1, timeout - (time.time() - t0)))
        except subprocess.TimeoutExpired:
            p.kill()
            raise core.Infra("C19 worker timed out")
        if rc != 0:
            raise core.Infra("C19 worker failed (%d): %s" % (rc, se.decode("utf-8", "replace")[-1500:]))
        out.append(json.loads(so.decode("utf-8")))
    return out


# ------------------------------------------------------------------------------------------------------------
# entry points
# ------------------------------------------------------------------------------------------------------------

def run(ctx, deep=False):
    thorough = ctx.tier == "thorough" or deep
    total = 100000 if thorough else 2000
    k = 16
    pool_seed = ctx.rng.getrandbits(32)
    jobs = [{"seed": ctx.rng.getrandbits(48), "pool_seed": pool_seed, "n": total // k, "driver": ctx.driver,
             "deep_ratio": 0.02 if thorough else 0.08, "with_fixed": i == 0} for i in range(k)]
    results = collect([spawn(j) for j in jobs])
    dist = {}
    steps = 0
    all_fails = []
    for r in results:
        ctx.cov["evaluations"] += r["n"]
        ctx.cov["traces_validated_against_impl"] += r["n"]
        steps += r["steps"]
        for hx in r["digests"]:
            ctx.distinct.add(bytes.fromhex(hx))
        for smp in r["samples"]:
            if len(ctx.cov["samples"]) < 6:
                ctx.cov["samples"].append(smp)
        for d in r["diffs"]:
            ctx.diff(d["line"], {"step": d["first_differing_step"], "answer": d["model"]},
                     {"step": d["first_differing_step"], "answer": d["impl"]})
        all_fails += r["fails"]
        for kk, v in r["dist"].items():
            dist[kk] = dist.get(kk, 0) + v
    # a shrunk failing history is only reported if it fails the same way in a FRESH process (hidden state of a broken
    # implementation may have carried over from earlier histories of the worker); else the unshrunk one is reported
    cands = {}
    for f in all_fails:
        c = cands.setdefault(f["sig"], [])
        c.append((f["input"], f["detail"]))
        for k in ("original", "first"):
            if k in f:
                c.append((f[k]["input"], f[k]["detail"]))
    vjobs = []
    for sg in sorted(cands):
        uniq = {}
        for inp, det in cands[sg]:
            uniq.setdefault(canon(inp), (inp, det))
        # the fixed witness histories and each worker's earliest failure are the likeliest to be self-contained
        byrank = sorted(uniq.values(), key=lambda x: (x[0].get("stratum") != "witness", len(canon(x[0]))))
        cands[sg] = byrank[:8]
        for inp, det in cands[sg]:
            vjobs.append((sg, inp, det, {"seed": 0, "pool_seed": 0, "n": 0, "driver": ctx.driver, "histories": [inp],
                                         "shrink": False, "deep_ratio": 1.0,
                                         "pool": [k for k in inp["lemmas"] if k not in FRESH]}))
    confirmed = {}
    for (sg, inp, det, _), vr in zip(vjobs, collect([spawn(j[3]) for j in vjobs])):
        got = [x for x in vr["fails"] if x["sig"] == sg]
        if got and (sg not in confirmed or len(canon(inp)) < len(canon(confirmed[sg][0]))):
            confirmed[sg] = (inp, got[0]["detail"])
    for sg in sorted(cands):
        if sg in confirmed:
            ctx.fail(sg, confirmed[sg][0], confirmed[sg][1])
        else:
            inp, det = cands[sg][-1]
            ctx.fail(sg, inp, det + " (seen inside a worker process; not reproduced by this history alone in a fresh process)")
    ctx.notes["distribution"] = dict(sorted(dist.items()))
    ctx.notes["steps_total"] = steps
    ctx.notes["pool"] = results[0]["pool"] + FRESH
    ctx.notes["frame"] = ("after every step: key count, lexicon/rules object identity; after every history: keys, order and "
                          "objects of all non-pool entries, rules by content, unmentioned pool lemmas by content; after every "
                          "step on %d histories; deep content hash of all non-pool entries on those and once per worker after "
                          "all its histories (a history-by-history deep pass follows if it fails)" % sum(
                              r["frame_checks_per_step"] for r in results))
    ctx.notes["refuted_clauses_replayed"] = "the witness histories of the (former and current) _refuted theorems run first in worker 0"


def search(ctx):
    run(ctx, deep=True)


def replay(path):
    d = json.load(open(path, encoding="utf-8"))
    h = d["input"]["input"] if isinstance(d.get("input"), dict) and "input" in d["input"] else d["input"]
    job = {"seed": 0, "pool_seed": 0, "n": 0, "driver": META["driver"], "histories": [h], "verbose": True, "shrink": False,
           "deep_ratio": 1.0, "pool": [k for k in h["lemmas"] if k not in FRESH]}
    r = collect([spawn(job)])[0]
    t = r["trace"][0]
    print("history (cur=%s):" % h["cur"])
    for i, (s, m, a) in enumerate(zip(h["steps"], t["model"] or [], t["impl"])):
        print(" %2d %s\n      impl : %s\n      model: %s" % (i, canon(s), canon(a), canon(m)))
    print("frame:", t["frame"])
    print("oracle:", canon(t["oracle"]))
    return 0


if __name__ == "__main__":
    if "--worker" in sys.argv:
        worker_main()
