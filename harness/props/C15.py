"""C15 — a constituent keeps the language it was created in, even inside the other.

Lean side: Model/LangSites.lean, Props/C15.lean — non-interference for any list of lookup sites, and `decide`
theorems over the language-site inventory Gen/Sites.langSites regenerated from src/pyrealb/*.py on every run.
Tie: (i) DYNAMIC TRACE vs STATIC INVENTORY — every lexicon/rules accessor and factory call made while building and
realizing mixed-language G0 expressions is recorded with its calling function and whether a language was passed;
each traced current-language call must be a `current` site of the inventory (validates the translator) in an
exempt function (else the real code leaked the current language: failing input).  (ii) direct oracles on the
implementation: realization independent of the current language, explicit lang= equals creation under that
language, the embedded phrase keeps its own-language text, agreement crosses the boundary; complete sweep of
French h-initial words (aspirated-h decision) under either current language.
"""
import io
import json
import multiprocessing
import os
import re
import sys

from harness import core
from harness.impl import exprgen

META = {
    "driver": "drv_lang",
    "ops": "langsites,leaks",
    "translators": ["sites"],
    "technique": "Lean 4 non-interference lemma + kernel-checked language-site inventory regenerated from the source + dynamic "
                 "call trace vs inventory + mixed-language embedding oracles",
    "level_text": "Kernel-checked: lookups of any function body are independent of the current language unless one of its sites "
                  "is of kind `current` (all site lists, all lexicon contents); and by `decide +kernel` over the inventory "
                  "regenerated from src/pyrealb/*.py on each run, every accessor/factory call that leaves the language to the "
                  "current language lies in an explicitly exempt function (factory defaults = language current at creation, "
                  "sentence-type transformations which are outside the property's scope, notation converters, lemmatizer, "
                  "warning sentences), none in setLemma/declension/conjugation/elision/getTonicPro/constructors. Tie: dynamic trace "
                  "of every accessor and factory call during mixed-language realization checked against the inventory; direct "
                  "oracles on embeddings in both language orders and both current languages; complete French h-word sweep.",
    "level_note": "Scope G0 as the property states (no sentence-type transformation). The static inventory is name-based and "
                  "per function; that G0 code does not call the exempt transformation functions is checked dynamically (trace), "
                  "not proved. Model = inventory + resolution semantics; the realizer itself is the real code.",
    "rule": "G0 phrases (NP/AP/AdvP/PP/CP and VP in simple tenses, no typ) built in language A — with explicit lang= on every "
            "node, or under current language A — embedded at subject/object/complement/attribute positions of a clause of B, for "
            "both (A,B) orders, realized under either current language; plus every French lexicon word in h (N, A, V, Adv) after "
            "le/de/que inside an English sentence. non-trivial = distinct expression whose text contains words of both languages",
    "assumptions": ["the dynamic trace wraps the accessors and factories in every pyrealb module namespace (calls through other aliases are not seen)"],
    "trusted": ["harness/translate/sites.py (AST inventory, name-based)"],
}

_NS = {}
TRACE = set()
SIMPLE_T = {"en": ["p", "ps", "f"], "fr": ["p", "i", "f", "ps", "c", "s"]}


def setup_trace():
    """wrap accessors and factories in every pyrealb module namespace"""
    core.ensure_repo_on_path()
    import pyrealb
    L = sys.modules["pyrealb.Lexicon"]   # (the package attribute pyrealb.Lexicon is the CLASS, shadowing the module)
    U = sys.modules["pyrealb.utils"]
    mods = [m for n, m in sys.modules.items() if n.startswith("pyrealb") and m is not None]
    acc = {"getLexicon": 0, "getRules": 0, "getLemma": 1}
    fac_term = ["N", "A", "Pro", "D", "Adv", "V", "P", "C", "DT", "NO", "Q"]
    fac_other = ["NP", "AP", "AdvP", "VP", "PP", "CP", "S", "SP", "root", "subj", "det", "mod", "comp", "coord"]

    def caller():
        f = sys._getframe(2)
        # skip harness frames
        while f is not None and "pyrealb" not in (f.f_code.co_filename or ""):
            return None
        q = f.f_code.co_qualname.replace(".<locals>", "")
        q = re.sub(r"\.<lambda>$", "", q)
        return q

    def wrap_acc(name, fn, pos):
        def w(*a, **k):
            lang = k.get("lang", a[pos] if len(a) > pos else None)
            c = caller()
            if c is not None and c not in ("getLexicon", "getRules", "getLemma", "Lexicon.getLexicalInfo"):
                TRACE.add((c, name, lang is None))
            return fn(*a, **k)
        w.__wrapped__ = fn
        return w

    def wrap_fac(name, fn, pos):
        def w(*a, **k):
            lang = k.get("lang", (a[pos] if (pos is not None and len(a) > pos) else None))
            c = caller()
            if c is not None and c not in ("terminal", "phrase", "dep"):
                TRACE.add((c, name, lang is None))
            return fn(*a, **k)
        w.__wrapped__ = fn
        return w

    table = {}
    for name, pos in acc.items():
        table[name] = wrap_acc(name, getattr(L, name), pos)
    for name in fac_term:
        table[name] = wrap_fac(name, getattr(U, name), 1)
    for name in fac_other:
        table[name] = wrap_fac(name, getattr(U, name), None)
    for m in mods:
        for name, w in table.items():
            if name in getattr(m, "__dict__", {}) and not hasattr(m.__dict__[name], "__wrapped__") and callable(m.__dict__[name]):
                # only replace the library's own function objects
                if getattr(m.__dict__[name], "__module__", "").startswith("pyrealb"):
                    setattr(m, name, w)
    _NS.clear()
    _NS.update({k: getattr(pyrealb, k) for k in pyrealb.__all__ if hasattr(pyrealb, k)})
    for name, w in table.items():
        if name in _NS:
            _NS[name] = getattr(U, name) if hasattr(U, name) and name not in acc else getattr(L, name)
    import datetime
    _NS["datetime"] = datetime


class Quiet:
    def __enter__(self):
        self.old, self.oldout = sys.stderr, sys.stdout
        sys.stderr = self.buf = io.StringIO()
        sys.stdout = io.StringIO()
        return self

    def __exit__(self, *a):
        sys.stderr, sys.stdout = self.old, self.oldout

    def nwarn(self):
        return len([l for l in self.buf.getvalue().split("\n") if l.strip()])


def load(lang):
    import pyrealb
    (pyrealb.loadEn if lang == "en" else pyrealb.loadFr)()


def build_real(src, build_cur, real_cur):
    """build under one current language, realize under another; returns [text, nwarn] or ['EXC:..']"""
    load(build_cur)
    with Quiet() as qz:
        try:
            e = eval(src, dict(_NS))
            load(real_cur)
            t = e.realize()
        except Exception as ex:  # noqa
            return ["EXC:" + type(ex).__name__, False]
    return [t, qz.nwarn() > 0]   # warning TEXTS are realized in the current language by design: only their presence counts


class G0(exprgen.Gen):
    """G0: no typ, simple tenses, warning-free lexical choices; `explicit` puts lang= on every node"""

    def __init__(self, rng, lang, explicit):
        super().__init__(rng, lang, malformed=0.0, depth=2)
        self.explicit_lang = explicit

    def typ(self):
        return ""

    def fmt_opts(self):
        return ""

    def T(self, pos):
        r = self.rng
        lemma = exprgen.word(r, self.lang, pos)
        if pos == "Pro":
            lemma = r.choice({"en": ["I", "me", "mine"], "fr": ["je", "moi", "mien"]}[self.lang])
        if pos == "D":
            lemma = r.choice({"en": ["the", "a", "my", "this"], "fr": ["le", "un", "mon", "ce"]}[self.lang])
        s = "%s(%s%s)" % (pos, exprgen.q(lemma), self.larg())
        if pos == "N" and r.random() < 0.4:
            s += '.n("%s")' % r.choice("sp")
        if pos == "A" and r.random() < 0.25:
            s += '.f("%s")' % r.choice(["co", "su"])
        if pos == "Adv" and r.random() < 0.2:
            s += '.f("%s")' % r.choice(["co", "su"])
        if pos == "V":
            s += '.t("%s")' % r.choice(SIMPLE_T[self.lang])
        if pos == "Pro":
            s += ".pe(%d)" % r.choice([1, 2, 3])
            if r.random() < 0.5:
                s += '.n("%s")' % r.choice("sp")
        return s

    def NO(self):
        return "NO(%s%s)%s" % (self.rng.choice(["1", "2", "3", "21", "80", "1000"]), self.larg(), self.rng.choice(["", ".nat(True)", '.dOpt({"ord":True})']))

    def SP(self, d):
        return self.PP(d)

    def phrase(self):
        k = self.rng.random()
        if k < 0.45:
            return "NP", self.NP(1)
        if k < 0.6:
            return "PP", self.PP(1)
        if k < 0.72:
            return "AP", self.AP(1)
        if k < 0.82:
            return "CP", self.CP(1, "NP")
        if k < 0.9:
            return "VP", self.VP(1)
        return "Adv", self.T("Adv")


def frame(rng, B, kind, inner):
    """a clause of language B (explicit lang on its own nodes) with `inner` at an argument position"""
    w = {"en": {"D": "the", "N": "cat", "V": "see", "Vb": "be", "P": "with", "N2": "dog"},
         "fr": {"D": "le", "N": "chat", "V": "voir", "Vb": "être", "P": "avec", "N2": "chien"}}[B]
    L = ',"%s"' % B
    subj = 'NP(D("%s"%s),N("%s"%s),lang="%s")' % (w["D"], L, w["N"], L, B)
    t = rng.choice(SIMPLE_T[B])
    if kind in ("NP", "CP"):
        pos = rng.choice(["subj", "obj", "pp"])
        if pos == "subj":
            return 'S(%s,VP(V("%s"%s).t("%s"),NP(D("%s"%s),N("%s"%s),lang="%s"),lang="%s"),lang="%s")' % (inner, w["V"], L, t, w["D"], L, w["N2"], L, B, B, B), pos
        if pos == "obj":
            return 'S(%s,VP(V("%s"%s).t("%s"),%s,lang="%s"),lang="%s")' % (subj, w["V"], L, t, inner, B, B), pos
        return 'S(%s,VP(V("%s"%s).t("%s"),PP(P("%s"%s),%s,lang="%s"),lang="%s"),lang="%s")' % (subj, w["V"], L, t, w["P"], L, inner, B, B, B), pos
    if kind == "PP" or kind == "Adv":
        return 'S(%s,VP(V("%s"%s).t("%s"),%s,lang="%s"),lang="%s")' % (subj, w["V"], L, t, inner, B, B), "comp"
    if kind == "AP":
        return 'S(%s,VP(V("%s"%s).t("%s"),%s,lang="%s"),lang="%s")' % (subj, w["Vb"], L, t, inner, B, B), "attr"
    if kind == "VP":
        return 'S(%s,%s,lang="%s")' % (subj, inner, B), "vp"
    return inner, "alone"


def strip_lang(src):
    return re.sub(r',lang="(en|fr)"', "", re.sub(r'\((\s*"[^"]*")\s*,\s*"(en|fr)"\)', r"(\1)", src))


def norm(t):
    return " ".join(t.replace("<", " <").split()).lower()


def altered(inner, full):
    """which tokens of the embedded phrase were changed: 'own->embedded' pairs (the narrow part of the signature)"""
    import difflib
    a, b = inner.split(), full.split()
    best = None
    for i in range(0, max(1, len(b) - len(a) + 1)):
        w = b[i:i + len(a)]
        d = sum(1 for x, y in zip(a, w) if x.strip(".,") != y.strip(".,"))
        if best is None or d < best[0]:
            best = (d, w)
    ch = sorted(set("%s->%s" % (x.strip(".,"), y.strip(".,")) for x, y in zip(a, best[1]) if x.strip(".,") != y.strip(".,")))
    return ",".join(ch[:3]) if ch else "tokens-moved"


def work(args):
    seed, n = args
    import random
    setup_trace()
    rng = random.Random(seed)
    out = []
    for _ in range(n):
        A = rng.choice(["en", "fr"])
        B = "fr" if A == "en" else "en"
        g = G0(rng, A, True)
        kind, inner = g.phrase()
        inner = re.sub(r"\.pro\((True)?\)", "", inner)   # pronominalization replaces the phrase: not an embedding of it
        full, pos = frame(rng, B, kind, inner)
        rec = {"A": A, "B": B, "kind": kind, "pos": pos, "src": full, "inner": inner}
        # O1: realization-time independence (built under B; explicit languages everywhere)
        rec["r_en"] = build_real(full, B, "en")
        rec["r_fr"] = build_real(full, B, "fr")
        # O2: creation under the other current language with explicit lang= gives the same
        rec["r_buildA"] = build_real(full, A, B)
        # O2b: inner built with NO lang arguments under current A equals inner with explicit lang=A under current B
        rec["inner_own"] = build_real(strip_lang(inner), A, A)
        rec["inner_exp_under_B"] = build_real(inner, B, B)
        out.append(rec)
        # pronominalized variant (the phrase is REPLACED by a pronoun of its own language at realization time):
        # only the independence of the current language is required of it
        if kind in ("NP", "PP") and rng.random() < 0.35:
            full_p, pos_p = frame(rng, B, kind, inner + ".pro()")
            out.append({"A": A, "B": B, "kind": kind + ".pro", "pos": pos_p, "src": full_p, "inner": inner + ".pro()",
                        "r_en": build_real(full_p, B, "en"), "r_fr": build_real(full_p, B, "fr"),
                        "r_buildA": build_real(full_p, A, B), "inner_own": ["", False], "inner_exp_under_B": ["", False]})
        # bare strings as phrase children (converted to Q by the constructor, in the language of the PHRASE): function
        # words that start an elision / contraction / a-an decision of the embedded language
        if rng.random() < 0.2:
            vn = {"fr": ["eau", "ami", "arbre", "homme", "école", "hôtel"], "en": ["apple", "hour", "eagle", "orange"]}[A]
            cn = {"fr": ["chat", "garçon", "livre"], "en": ["cat", "dog"]}[A]
            LA = ',"%s"' % A
            tpl = {"fr": [('PP', 'PP("de",N(%s%s),lang="fr")' % (exprgen.q(rng.choice(vn)), LA)),
                          ('PP', 'PP("à",NP(D("le"%s),N(%s%s),lang="fr"),lang="fr")' % (LA, exprgen.q(rng.choice(cn)), LA)),
                          ('PP', 'PP("de",NP(D("le"%s),N(%s%s),lang="fr"),lang="fr")' % (LA, exprgen.q(rng.choice(cn)), LA)),
                          ('NP', 'NP(D("le"%s),N(%s%s),"de",N(%s%s),lang="fr")' % (LA, exprgen.q(rng.choice(cn)), LA, exprgen.q(rng.choice(vn)), LA)),
                          ('NP', 'NP("le",N(%s%s),lang="fr")' % (exprgen.q(rng.choice(vn)), LA)),
                          ('PP', 'PP("jusque",PP(P("à"%s),NP(D("le"%s),N(%s%s),lang="fr"),lang="fr"),lang="fr")' % (LA, LA, exprgen.q(rng.choice(cn)), LA))],
                   "en": [('NP', 'NP("a",N(%s%s),lang="en")' % (exprgen.q(rng.choice(vn)), LA)),
                          ('NP', 'NP("a",A("old"%s),N(%s%s),lang="en")' % (LA, exprgen.q(rng.choice(cn)), LA)),
                          ('PP', 'PP("of",NP(D("a"%s),N(%s%s),lang="en"),lang="en")' % (LA, exprgen.q(rng.choice(vn)), LA))]}[A]
            kb, ib = rng.choice(tpl)
            full_b, pos_b = frame(rng, B, kb, ib)
            out.append({"A": A, "B": B, "kind": kb + "(bare-string)", "pos": pos_b, "src": full_b, "inner": ib,
                        "r_en": build_real(full_b, B, "en"), "r_fr": build_real(full_b, B, "fr"),
                        "r_buildA": build_real(full_b, A, B),
                        "inner_own": build_real(strip_lang(ib), A, A), "inner_exp_under_B": build_real(ib, B, B)})
        # words of language A given DIRECTLY to a noun phrase created in language B (explicitly, or because B was current and
        # only the words were tagged): agreement between the words (gender of a numeral or determiner, number of the noun)
        # must be that of the all-A phrase.  Only agreement: elision, euphony and adjective placement are done by the
        # enclosing phrase's own language and are not required here.
        if rng.random() < 0.2:
            LA = ',"%s"' % A
            if A == "fr":
                nf = exprgen.q(rng.choice(["souris", "maison", "table", "fille", "pomme", "voiture"]))
                nm = exprgen.q(rng.choice(["chat", "garçon", "livre", "cheval", "journal"]))
                noun = rng.choice([nf, nf, nm])
                tpls = ['NP(D("un"%s),N(%s%s)%%s)' % (LA, noun, LA), 'NP(NO(%d%s).nat(),N(%s%s)%%s)' % (rng.choice([1, 1, -1, 2, 21]), LA, noun, LA),
                        'NP(D("le"%s),NO(1%s).dOpt({"ord":True}),N(%s%s)%%s)' % (LA, LA, noun, LA), 'NP(D("le"%s),N(%s%s)%%s).n("p")' % (LA, noun, LA),
                        'NP(NO(3%s).nat(),A("petit"%s),N(%s%s)%%s)' % (LA, LA, noun, LA), 'NP(D("mon"%s).pe(%d),N(%s%s)%%s)' % (LA, rng.choice([1, 2, 3]), noun, LA)]
            else:
                noun = exprgen.q(rng.choice(["child", "woman", "mouse", "cat", "box"]))
                tpls = ['NP(NO(%d%s).nat(),N(%s%s)%%s)' % (rng.choice([1, 2, 3, 21]), LA, noun, LA), 'NP(D("this"%s),N(%s%s)%%s).n("p")' % (LA, noun, LA),
                        'NP(D("my"%s).pe(3).g("f"),N(%s%s)%%s)' % (LA, noun, LA), 'NP(D("the"%s),N(%s%s)%%s).n("p")' % (LA, noun, LA)]
            t = rng.choice(tpls)
            own = t % (',lang="%s"' % A)
            mixed = t % (',lang="%s"' % B)
            untagged = t % ""
            out.append({"A": A, "B": B, "kind": "NP(words-of-A-in-phrase-of-B)", "pos": "alone", "src": mixed, "inner": own,
                        "r_en": build_real(mixed, B, "en"), "r_fr": build_real(mixed, B, "fr"), "r_buildA": build_real(mixed, A, B),
                        "inner_own": ["", False], "inner_exp_under_B": ["", False],
                        "own_text": build_real(own, A, A), "untagged_under_B": build_real(untagged, B, B)})
        # tonic pronouns after a preposition, pronominalized (the clitic is looked up at realization time)
        if rng.random() < 0.08:
            pr = {"fr": ["lui", "elle", "eux", "moi", "toi"], "en": ["me", "him", "them"]}[A]
            pp = 'PP(P(%s,"%s"),Pro(%s,"%s"),lang="%s").pro()' % (exprgen.q({"fr": "à", "en": "to"}[A]), A, exprgen.q(rng.choice(pr)), A, A)
            full_t, pos_t = frame(rng, B, "PP", pp)
            out.append({"A": A, "B": B, "kind": "PP(tonic).pro", "pos": pos_t, "src": full_t, "inner": pp,
                        "r_en": build_real(full_t, B, "en"), "r_fr": build_real(full_t, B, "fr"),
                        "r_buildA": build_real(full_t, A, B), "inner_own": ["", False], "inner_exp_under_B": ["", False]})
    return out, sorted(TRACE)


def hwords():
    lx = exprgen.lex("fr")
    out = []
    for pos in ("N", "A", "V", "Adv"):
        for tab, ws in lx.get(pos, {}).items():
            for w in ws:
                if w[:1] in "hH":
                    out.append((pos, w))
    return sorted(set(out))


def work_h(chunk):
    setup_trace()
    res = []
    for pos, w in chunk:
        if pos == "N":
            src = 'S(NP(D("the","en"),N("cat","en"),lang="en"),VP(V("see","en"),NP(D("le","fr"),N(%s,"fr"),lang="fr"),lang="en"),lang="en")' % exprgen.q(w)
        elif pos == "A":
            src = 'S(NP(D("the","en"),N("cat","en"),lang="en"),VP(V("see","en"),NP(D("le","fr"),A(%s,"fr").pos("pre"),N("ami","fr"),lang="fr"),lang="en"),lang="en")' % exprgen.q(w)
        elif pos == "V":
            src = 'S(Pro("je","fr").pe(1),VP(V(%s,"fr"),NP(D("the","en"),N("cat","en"),lang="en"),lang="fr"),lang="fr")' % exprgen.q(w)
        else:
            src = 'S(NP(D("the","en"),N("cat","en"),lang="en"),VP(V("see","en"),PP(P("de","fr"),Adv(%s,"fr"),lang="fr"),lang="en"),lang="en")' % exprgen.q(w)
        a = build_real(src, "en", "en")
        b = build_real(src, "fr", "fr")
        res.append((pos, w, src, a, b))
    return res, sorted(TRACE)


def run(ctx, deep=False):
    n = {"quick": 6000, "thorough": 240000}[ctx.tier] * (2 if deep else 1)
    nproc = min(16, os.cpu_count() or 4)
    per = max(50, n // (nproc * 4))
    tasks = [(ctx.rng.randrange(10 ** 9), per) for _ in range(n // per)]
    hw = hwords()
    if ctx.tier == "quick":
        hw = ctx.rng.sample(hw, min(len(hw), 600))
    hchunks = [hw[i:i + 100] for i in range(0, len(hw), 100)]
    with multiprocessing.get_context("fork").Pool(nproc) as pool:
        results = pool.map(work, tasks, chunksize=1)
        hres = pool.map(work_h, hchunks, chunksize=1)
    trace = set()
    dist = {}
    for recs, tr in results:
        trace |= set(map(tuple, tr))
        for r in recs:
            line = {"A": r["A"], "B": r["B"], "kind": r["kind"], "pos": r["pos"], "src": r["src"]}
            ctx.count(line, r["r_en"], trivial=r["r_en"][0].startswith("EXC"))
            dist[(r["A"], r["kind"], r["pos"])] = dist.get((r["A"], r["kind"], r["pos"]), 0) + 1
            inp = {"src": r["src"], "A": r["A"], "B": r["B"]}
            if r["r_en"] != r["r_fr"]:
                ctx.fail("realization-depends-on-current-language:%s-in-%s:%s@%s" % (r["A"], r["B"], r["kind"], r["pos"]), inp,
                         {"under_en": r["r_en"], "under_fr": r["r_fr"]})
            elif r["r_buildA"] != r["r_en"] and not r["r_en"][0].startswith("EXC"):
                ctx.fail("construction-depends-on-current-language:%s-in-%s:%s@%s" % (r["A"], r["B"], r["kind"], r["pos"]), inp,
                         {"built_under_B": r["r_en"], "built_under_A": r["r_buildA"]})
            if "own_text" in r and not r["own_text"][0].startswith("EXC"):
                for k in ("r_en", "untagged_under_B"):
                    if r[k] != r["own_text"]:
                        ctx.fail("agreement-between-words-of-%s-lost-in-a-phrase-of-%s" % (r["A"], r["B"]), inp,
                                 {"phrase_created_in_its_words_language": r["own_text"], "phrase_created_in_the_other_language": r[k],
                                  "how": "explicit lang= on the phrase" if k == "r_en" else "no lang on the phrase, other language current"})
                        break
            if r["inner_own"] != r["inner_exp_under_B"]:
                ctx.fail("explicit-lang-differs-from-creation-under-that-language:%s:%s" % (r["A"], r["kind"]),
                         {"src": r["inner"], "A": r["A"]}, {"no_lang_under_A": r["inner_own"], "explicit_under_B": r["inner_exp_under_B"]})
            # O3: the embedded phrase keeps its own-language text inside the other-language clause
            if r["kind"] in ("NP", "PP", "AP", "CP", "Adv") and r["inner_own"][0] and not r["r_en"][0].startswith("EXC") and not r["inner_own"][0].startswith("EXC"):
                inner_t = norm(r["inner_own"][0])
                if inner_t and inner_t not in norm(r["r_en"][0]):
                    # an attribute AP agrees with the subject, a subject-position NP starts with a capital (norm lower-cases)
                    if not (r["kind"] == "AP" and r["pos"] == "attr"):
                        ctx.fail("embedded-phrase-altered:%s-in-%s:%s" % (r["A"], r["B"], altered(inner_t, norm(r["r_en"][0]))), inp,
                                 {"alone_in_own_language": r["inner_own"][0], "embedded": r["r_en"][0]})
    nh = 0
    for recs, tr in hres:
        trace |= set(map(tuple, tr))
        for pos, w, src, a, b in recs:
            nh += 1
            ctx.count({"hword": w, "pos": pos}, a, trivial=False)
            if a != b:
                ctx.fail("aspirated-h-depends-on-current-language:%s" % pos, {"src": src, "word": w}, {"under_en": a, "under_fr": b})
    ctx.notes["h_words"] = nh
    ctx.notes["h_words_exhaustive"] = ctx.tier == "thorough"
    if ctx.tier == "thorough":
        ctx.exhaustive = True
        ctx.notes["exhaustive_scope"] = "every French lexicon N/A/V/Adv lemma beginning with h, after le/je/de, inside an English sentence, under both current languages"
    ctx.notes["distribution(A,kind,position)"] = {"%s,%s,%s" % k: v for k, v in sorted(dist.items())}
    # ---- dynamic trace vs static inventory
    lines = [{"op": "leaks", "func": f, "callee": c} for (f, c, none) in sorted(trace)]
    ans = core.run_driver(lines, ctx.driver)
    ntr = 0
    for (f, c, is_none), a in zip(sorted(trace), ans):
        ctx.cov["traces_validated_against_impl"] += 1
        ntr += 1
        if is_none:
            if not a["known"] or not a["current"]:
                ctx.diff({"traced_call": [f, c], "lang_passed": False}, {"inventory": a}, {"dynamic": "called without a language"})
            if not a["exempt"]:
                ctx.fail("current-language-lookup:%s->%s" % (f, c), {"function": f, "callee": c},
                         "during mixed-language G0 realization %s called %s without a language" % (f, c))
        else:
            if not a["known"]:
                ctx.diff({"traced_call": [f, c], "lang_passed": True}, {"inventory": a}, {"dynamic": "called with a language"})
    ctx.notes["traced_call_sites"] = ntr
    ctx.notes["traced_without_language"] = sorted("%s->%s" % (f, c) for (f, c, n) in trace if n)


def search(ctx):
    run(ctx, deep=True)


def replay(path):
    d = json.load(open(path))
    setup_trace()
    src = d["input"]["src"]
    print(json.dumps({"under_en": build_real(src, "en", "en"), "under_fr": build_real(src, "fr", "fr")}, ensure_ascii=False, indent=1))
    return 0
