"""C02 — declension of nouns, adjectives, adverbs, determiners and pronouns follows the tables.

Model: lean/Pyrealb/Model/{DeclTable,BestMatch,Decl}.lean ; theorems: lean/Pyrealb/Props/C02.lean ;
generated data: Gen/DeclEn, Gen/DeclFr (rules-*.json:declension), Gen/DocCells (documented paradigm cells).

Correspondence: every line is `pos(lemma)` plus a list of option combinations; the real pyrealb is run in-process
(current language set before every form, `Constituent.warn` counted, exceptions are outputs) and the model driver
`drv_decl` on the same lines; tokens after `doFormat`, the detokenized text and the warning count are compared.
Thorough: the complete finite space below (16 processes).  Quick: one lemma per (language, type, table, lexicon flag)
plus a 2 % sample.  A separate stream exercises `bestMatch` on synthetic tables, and a malformed stream unknown
lemmas, wrong parts of speech, illegal option values / receivers, `.maje()`, repeated options.

Two metamorphic strata on the implementation (reference = its own monolingual, fresh form): `lang` — the same request
built with an explicit lang= while the OTHER language is current, and built at home then realized after the other
language was loaded, must give the same form and the same presence of warnings; `clone` — options given to a clone
of a word change neither the original nor make the clone differ from a fresh word with those options.

Oracle (independent of the Lean model): the declarative reading of the property recomputed in Python from the rules
JSON — request derivation by priority lists, score by sums, first arg-max by `max` — and compared with what the
implementation printed.
"""
import contextlib
import hashlib
import io
import json
import multiprocessing
import os
import time

from harness import core

META = {
    "ops": "decl,bestmatch,tables,tbl-witness",
    "driver": "drv_decl",
    "translators": ["decl", "doccells"],
    "technique": "Lean 4 proof (bestMatch = first arg-max of a declarative score, for all tables and requests; table "
                 "theorems by decide +kernel over the generated documentation cells) + complete enumeration as correspondence",
    "level_text": "Kernel-checked theorems about the model: for ALL row lists and requests bestMatch returns the val of the "
                  "first row of maximal positive declarative score and None iff every row scores 0; declension output = stem ++ "
                  "that row's val; comparative/superlative periphrases; lexicon vetoes; compatible row => not None; every "
                  "documented paradigm cell (250, regenerated from docs/documentation.html) equals the model on the generated "
                  "rule tables (decide +kernel, re-proved when docs or tables change); no crash under a decidable "
                  "well-formedness predicate. Tie: model vs the real pyrealb on the complete space of lexicon words x feature "
                  "combinations (thorough) and a direct Python oracle of the declarative spec on every form.",
    "level_note": "Trusted: Lean kernel; translator (checked: the driver returns the generated tables and they are compared "
                  "with rules-*.json); correspondence harness. Assumed and checked only by correspondence: doElision/doFormat "
                  "leave declension outputs unchanged; a stand-alone terminal (no parent); current language = terminal's "
                  "language (C15 covers the rest); warning texts not modelled (a 3 % sample runs the real warn()).",
    "rule": "N x {n absent,s,p} x {g absent,m,f}; A x g x n x f (fr 27, en 12 combinations); Adv x f; D x g5 x n4 x pe4 x "
            "own4; Pro x g5 x n4 x pe4 x own4 x tn3 x c6; D and Pro again with pe spelled '1','2','3' (54 / 324 combinations); non-trivial = realized text differs from the lemma or a warning "
            "was raised, counted once per (language, type, table, combination, answer)",
    "assumptions": ["A_noelision: doElision and the formatting steps of doFormat are the identity on the token lists "
                    "decline() returns for a stand-alone terminal without formatting options",
                    "A_curlang: the MODEL is run with current language = terminal's language; that the current language "
                    "does not matter is checked on the implementation by the `lang` stratum (model-free)",
                    "lexicon entries carry no key named maje/poss/cap/tag/a/b/en/ba/lier (checked on every run)"],
    "trusted": ["Constituent.warn wrapped from outside to count calls (real warn() and its stderr line exercised on a sample)"],
}

LANGS = ("en", "fr")
POSES = ("N", "A", "Adv", "D", "Pro")
ABS = None  # option absent


# --------------------------------------------------------------------------------------------- data

class Data:
    lex = {}
    rules = {}
    repo = None


def load_data():
    if Data.repo == core.REPO:
        return
    for lang in LANGS:
        d = os.path.join(core.REPO, "src", "pyrealb", "data")
        with open(os.path.join(d, "lexicon-%s.json" % lang), encoding="utf-8") as f:
            Data.lex[lang] = json.load(f)
        with open(os.path.join(d, "rules-%s.json" % lang), encoding="utf-8") as f:
            Data.rules[lang] = json.load(f)["declension"]
    Data.repo = core.REPO


def norm(lemma):
    return lemma.replace("œ", "oe").replace("æ", "ae")


AUX = {("en", "A"): ["more", "most"], ("en", "Adv"): ["more", "most"],
       ("fr", "A"): ["plus", "le", "meilleur", "pire"], ("fr", "Adv"): ["plus", "le", "meilleur", "pire"],
       ("fr", "D"): ["notre", "votre"]}


def enc_entry(e):
    return [[p, [[k, (v if isinstance(v, (str, int)) and not isinstance(v, bool) else None)] for k, v in pe.items()]]
            for p, pe in e.items() if isinstance(pe, dict)]


def mini_lex(lang, pos, lemma):
    lex = Data.lex[lang]
    names = []
    for x in [lemma, norm(lemma)] + AUX.get((lang, pos), []):
        if isinstance(x, str) and x not in names and x in lex:
            names.append(x)
    return [[x, enc_entry(lex[x])] for x in names]


# --------------------------------------------------------------------------------------------- combinations

def product(*axes):
    res = [[]]
    for name, vals in axes:
        res = [r + ([[name, v]] if v is not ABS else []) for r in res for v in vals]
    return res


def build_combos():
    C = {}
    C["N"] = product(("g", [ABS, "m", "f"]), ("n", [ABS, "s", "p"]))
    C["A-fr"] = product(("g", [ABS, "m", "f"]), ("n", [ABS, "s", "p"]), ("f", [ABS, "co", "su"]))
    C["A-en"] = product(("g", [ABS, "f"]), ("n", [ABS, "p"]), ("f", [ABS, "co", "su"]))
    C["Adv"] = product(("f", [ABS, "co", "su"]))
    base = [("g", [ABS, "m", "f", "n", "x"]), ("n", [ABS, "s", "p", "x"]), ("pe", [ABS, 1, 2, 3]),
            ("ow", [ABS, "s", "p", "x"])]
    C["D"] = product(*base)
    C["Pro"] = product(*(base + [("tn", [ABS, "", "refl"]), ("c", [ABS, "nom", "acc", "dat", "refl", "gen"])]))
    # persons spelled as strings ('1','2','3' are documented valid values of .pe())
    sbase = [("g", [ABS, "m", "f"]), ("n", [ABS, "s", "p"]), ("pe", ["1", "2", "3"]), ("ow", [ABS, "s"])]
    C["D-str"] = product(*sbase)
    C["Pro-str"] = product(*(sbase + [("tn", [ABS, ""]), ("c", [ABS, "nom", "acc"])]))
    return C


COMBOS = build_combos()


def combos_key(lang, pos):
    return "A-" + lang if pos == "A" else pos


# --------------------------------------------------------------------------------------------- the real code

class Impl:
    ready = False
    cnt = [0]
    realwarn = False
    orig_warn = None
    cons = {}
    load = {}


def impl_setup():
    if Impl.ready:
        return
    core.ensure_repo_on_path()
    import pyrealb
    from pyrealb.Constituent import Constituent
    Impl.orig_warn = Constituent.warn

    def warn(self, *args):
        Impl.cnt[0] += 1
        if Impl.realwarn:
            buf = io.StringIO()
            with contextlib.redirect_stderr(buf):
                r = Impl.orig_warn(self, *args)
            if not buf.getvalue().strip():
                raise core.Infra("warn() wrote nothing to stderr")
            return r
        return self

    Constituent.warn = warn
    Impl.cons = {"N": pyrealb.N, "A": pyrealb.A, "Adv": pyrealb.Adv, "D": pyrealb.D, "Pro": pyrealb.Pro}
    Impl.load = {"en": pyrealb.loadEn, "fr": pyrealb.loadFr}
    Impl.ready = True


def impl_one(lang, pos, lemma, combo):
    Impl.load[lang]()
    Impl.cnt[0] = 0
    try:
        t = Impl.cons[pos](lemma)
        for name, val in combo:
            getattr(t, name)(val)
        terms = t.real()
        toks = [x.realization for x in terms]
        text = t.detokenize(terms)
        if not all(isinstance(x, str) for x in toks) or not isinstance(text, str):
            return {"err": "non-string realization"}
        return {"toks": toks, "text": text, "w": Impl.cnt[0]}
    except core.Infra:
        raise
    except Exception as e:  # noqa: an exception is an output
        return {"err": type(e).__name__}


# --------------------------------------------------------------------------------------------- the oracle (declarative spec)

def row_score(row, kv):
    """2 per requested feature carried with the same value, 1 per feature carried with "x", 0 altogether when the
    row carries pe with another value than the requested one"""
    if "pe" in kv and "pe" in row and row["pe"] != kv["pe"]:
        return 0
    return sum(2 if row[k] == v else (1 if row[k] == "x" else 0) for k, v in kv.items() if k in row)


def first_max(rows, kv):
    scores = [row_score(r, kv) for r in rows]
    m = max(scores) if scores else 0
    return rows[scores.index(m)] if m > 0 else None


def compatible(row, kv):
    shared = [k for k in kv if k in row]
    ok = all(row[k] == kv[k] or (row[k] == "x" and k != "pe") for k in shared)
    return bool(shared) and ok and any(row[k] == kv[k] or row[k] == "x" for k in shared)


ALWAYS_PLURAL = {"en": ["n6"], "fr": ["n1", "n15", "n21", "n22", "n26"]}
DEFAULT_G = {"en": "n", "fr": "m"}
TONIC1 = {"en": "me", "fr": "moi"}


def spec_entry(lang, pos, lemma):
    """(entry, table, stem) or None when the lemma has no usable table for this part of speech"""
    e = Data.lex[lang].get(lemma)
    if not isinstance(e, dict) or not isinstance(e.get(pos), dict):
        return None
    pe = e[pos]
    tab = pe.get("tab")
    tb = Data.rules[lang].get(tab) if isinstance(tab, str) else None
    if tb is None or not lemma.endswith(tb["ending"]):
        return None
    return pe, tb, lemma[:len(lemma) - len(tb["ending"])]


def inferred_pe(tb):
    rows = tb["declension"]
    pes = set(r.get("pe") for r in rows)
    if len(pes) == 1 and None not in pes and 3 not in pes:
        return rows[0]["pe"]
    return None


def spec_simple(lang, pos, lemma, g, n):
    """documented form of pos(lemma).g(g).n(n) for an A or a D (used by the French comparative)"""
    s = spec_entry(lang, pos, lemma)
    if s is None:
        return None
    pe_, tb, stem = s
    rows = tb["declension"]
    if pos == "D":
        if len(rows) == 1:
            return stem + rows[0]["val"]
        r = first_max(rows, {"pe": 3, "g": g, "n": n})
    else:
        r = first_max(rows, {"g": g, "n": n})
    return None if r is None else stem + r["val"]


def spec_form(lang, pos, lemma, combo):
    """the declarative reading of C02 for one form: {"text":…, "w":…} ('text' None = bracketed lemma) or None when
    the property says nothing (lemma without usable table; options outside the enumerated valid space)"""
    s = spec_entry(lang, pos, lemma)
    if s is None:
        return None
    ent, tb, stem = s
    rows = tb["declension"]
    opt = {}
    for k, v in combo:
        opt[k] = v
    bracket = "[[" + lemma + "]]"
    if pos in ("A", "Adv"):
        f = opt.get("f")
        if lang == "en":
            if f is None:
                return {"text": lemma, "w": 0}
            if ent["tab"] == "a1":
                return {"text": ("more " if f == "co" else "most ") + lemma, "w": 0}
            st = stem
            if ent["tab"] == "b1":
                a = Data.lex[lang][lemma].get("A")
                if not isinstance(a, dict):
                    return {"text": lemma, "w": 0}
                atb = Data.rules[lang][a["tab"]]
                rows = atb["declension"]
                st = lemma[:len(lemma) - len(atb["ending"])]    # the adjective's stem
            r = first_max(rows, {"f": f})
            return {"text": bracket, "w": 2} if r is None else {"text": st + r["val"], "w": 0}
        # French
        if pos == "Adv":
            return None  # no French adverb has a declension table; nothing prescribed
        g = opt.get("g", "m")
        n = opt.get("n", "s")
        r = first_max(rows, {"g": g, "n": n})
        if r is None:
            return {"text": bracket, "w": 2}
        if f is None:
            return {"text": stem + r["val"], "w": 0}
        special = {"bon": "meilleur", "mauvais": "pire"}
        if lemma in special:
            core_ = spec_simple(lang, "A", special[lemma], g, n)
        else:
            core_ = "plus " + stem + r["val"]
        if core_ is None:
            return None
        if f == "su":
            le = spec_simple(lang, "D", "le", g, n)
            if le is None:
                return None
            core_ = le + " " + core_
        return {"text": core_, "w": 0}
    # N, D, Pro
    g = opt.get("g", ent.get("g", DEFAULT_G[lang]))
    if "n" in opt:
        n = opt["n"]
    elif pos == "N" and ent["tab"] in ALWAYS_PLURAL[lang]:
        n = "p"
    else:
        n = ent.get("n", "s")
    w = 0
    if len(rows) == 1:
        form = stem + rows[0]["val"]
    else:
        kv = {"g": g, "n": n}
        if pos != "N":
            pe = opt.get("pe")
            if pe is None and pos == "Pro":
                pe = inferred_pe(tb)
            if pe is None:
                pe = ent.get("pe", 3)
            kv = {"pe": int(pe), "g": g, "n": n}
        if "ow" in opt:
            kv["own"] = opt["ow"]
        if pos == "Pro":
            c = opt.get("c")
            tn = opt.get("tn")
            if c is not None:
                if (lang == "en" and c == "refl") or (lang == "fr" and c == "gen"):
                    w += 1          # the case does not exist in this language: warning, ignored
                else:
                    kv["c"] = c
            if tn is not None:
                if c is not None:
                    w += 1          # both given: warning, tn ignored
                else:
                    kv["tn"] = tn
            if c is None and tn is None:
                if lemma != "on":
                    kv["tn"] = ""
            elif lemma != TONIC1[lang] and not (lang == "en" and c == "gen"):
                kv["pe"] = rows[0].get("pe", 3)     # a tonic lemma other than me/moi fixes the person
        r = first_max(rows, kv)
        if r is None:
            return {"text": bracket, "w": w + 2, "kv": kv}
        form = stem + r["val"]
    if pos == "N":
        if lang == "fr":
            lg = ent.get("g")
            if lg is None or (lg != "x" and lg != g):
                return {"text": bracket, "w": w + 1, "veto": "gender"}
        elif n == "p" and ent.get("cnt") == "no":
            return {"text": bracket, "w": w + 1, "veto": "uncountable"}
    return {"text": form, "w": w}


def signature(lang, pos, lemma, combo, kind):
    """language + part of speech + table id (+ adjective table for an adverb) + feature tuple; lemma dropped"""
    e = Data.lex[lang].get(norm(lemma)) if isinstance(lemma, str) else None
    tab = "?"
    if isinstance(e, dict) and isinstance(e.get(pos), dict):
        tab = str(e[pos].get("tab"))
        if pos == "Adv" and isinstance(e.get("A"), dict):
            tab += ">A:" + str(e["A"].get("tab"))
    feats = ",".join("%s=%s" % (k, json.dumps(v, ensure_ascii=False)) for k, v in combo)
    return "%s:%s:%s:%s:%s" % (kind, lang, pos, tab, feats)


# --------------------------------------------------------------------------------------------- jobs

def crash_signature(lang, pos, lemma, combo, exc):
    """crash:<Type>|<lang>|<pos>|<tab>|<feats>; values kept with their Python type ("2" vs 2), lemma dropped"""
    base = signature(lang, pos, lemma, combo, "x").split(":", 4)
    return "crash:%s|%s|%s|%s|%s" % (exc, lang, pos, base[3], base[4])


def make_line(job):
    lang, pos, lemma, ckey, extra = job[:5]
    combos = extra if ckey is None else COMBOS[ckey]
    return {"op": "decl", "lang": lang, "pos": pos, "lemma": lemma, "lex": mini_lex(lang, pos, lemma), "combos": combos}


def run_chunk(args):
    """worker: a list of jobs -> summary"""
    jobs, driver, realwarn, oracle_on = args
    impl_setup()
    load_data()
    Impl.realwarn = realwarn
    lines = [make_line(j) for j in jobs]
    model = core.run_driver(lines, driver)
    res = {"n": 0, "diffs": [], "fails": [], "digests": set(), "dist": {}, "samples": [], "nontrivial": 0, "warned": 0,
           "errs": 0, "oracle_checked": 0, "unusable": []}
    for job, line, m in zip(jobs, lines, model):
        if "driver_error" in m:
            raise core.Infra("driver error on %s %s %s: %s" % (job[0], job[1], job[2], m["driver_error"]))
        lang, pos, lemma = job[0], job[1], job[2]
        if job[5] and not m.get("usable"):
            res["unusable"].append([lang, pos, lemma])      # hypothesis `usableB` of decl_total fails on a real entry
        ent = Data.lex[lang].get(norm(lemma)) if isinstance(lemma, str) else None
        tab = ent[pos].get("tab") if isinstance(ent, dict) and isinstance(ent.get(pos), dict) else None
        dk = "%s,%s" % (lang, pos)
        for combo, ma in zip(line["combos"], m["res"]):
            a = impl_one(lang, pos, lemma, combo)
            res["n"] += 1
            res["dist"][dk] = res["dist"].get(dk, 0) + 1
            if core.canon(ma) != core.canon(a):
                if len(res["diffs"]) < 20:
                    res["diffs"].append(({"op": "decl", "lang": lang, "pos": pos, "lemma": lemma, "lex": line["lex"],
                                          "combos": [combo]}, {"res": [ma]}, {"res": [a]}))
                else:
                    res["diffs_more"] = res.get("diffs_more", 0) + 1
            if "err" in a:
                res["errs"] += 1
                if "err" not in ma:
                    # declension never raises on a request that has a form (or a bracketed lemma): an exception of the
                    # real code where the model answers is a failing input of its own, in every stream
                    res["fails"].append((crash_signature(lang, pos, lemma, combo, a["err"]),
                                         {"op": "decl", "lang": lang, "pos": pos, "lemma": lemma, "combos": [combo]},
                                         "the implementation raised %s; the model (= the tables' prescription) answers %r%s" % (
                                             a["err"], ma.get("text"), " with a warning" if ma.get("w") else "")))
                    continue
            else:
                if a["w"]:
                    res["warned"] += 1
                if a["text"] != lemma or a["w"]:
                    res["nontrivial"] += 1
                    res["digests"].add(hashlib.md5(core.canon([lang, pos, tab, combo, a]).encode()).digest())
            if len(res["samples"]) < 1:
                res["samples"].append(({"op": "decl", "lang": lang, "pos": pos, "lemma": lemma, "combos": [combo]}, a))
            if oracle_on and job[5]:
                sp = spec_form(lang, pos, lemma, combo)
                if sp is None:
                    continue
                res["oracle_checked"] += 1
                inp = {"op": "decl", "lang": lang, "pos": pos, "lemma": lemma, "combos": [combo]}
                if "err" in a:       # (the model raises too: its crash and the implementation's agree, the property does not)
                    res["fails"].append((crash_signature(lang, pos, lemma, combo, a["err"]), inp,
                                         "the implementation raised %s; the property prescribes %r" % (a["err"], sp["text"])))
                elif a["text"] != sp["text"]:
                    kind = "missing-veto-" + sp["veto"] if "veto" in sp else "wrong-form"
                    res["fails"].append((signature(lang, pos, lemma, combo, kind), inp,
                                         "realized %r, the tables prescribe %r" % (a["text"], sp["text"])))
                elif (sp["w"] == 0) != (a["w"] == 0) or (a["text"].startswith("[[") and a["w"] == 0):
                    res["fails"].append((signature(lang, pos, lemma, combo, "warning"), inp,
                                         "%d warning(s) raised, %d prescribed (form %r)" % (a["w"], sp["w"], a["text"])))
    if len(res["fails"]) > 300:
        # keep one per signature
        seen = {}
        for f in res["fails"]:
            seen.setdefault(f[0], f)
        res["fails_more"] = len(res["fails"]) - len(seen)
        res["fails"] = list(seen.values())
    return res


# --------------------------------------------------------------------------------------------- metamorphic strata
# The declined form belongs to the word: it depends neither on the language that happens to be current (stratum
# `lang`) nor on what is done to a clone of the word (stratum `clone`).  Reference = the monolingual, fresh form of
# the implementation itself (impl_one), which the sweep above ties to the model and to the oracle.

def realize_obj(t):
    terms = t.real()
    toks = [x.realization for x in terms]
    text = t.detokenize(terms)
    if not all(isinstance(x, str) for x in toks) or not isinstance(text, str):
        return {"err": "non-string realization"}
    return {"toks": toks, "text": text, "w": Impl.cnt[0]}


def impl_lang(lang, pos, lemma, combo, mode):
    """mode `explicit`: pos(lemma, lang) built and realized while the OTHER language is current;
    mode `switched`: built under its own language, realized after the other language was loaded"""
    other = "fr" if lang == "en" else "en"
    Impl.cnt[0] = 0
    try:
        if mode == "explicit":
            Impl.load[other]()
            t = Impl.cons[pos](lemma, lang)
            for name, val in combo:
                getattr(t, name)(val)
        else:
            Impl.load[lang]()
            t = Impl.cons[pos](lemma)
            for name, val in combo:
                getattr(t, name)(val)
            Impl.load[other]()
        return realize_obj(t)
    except core.Infra:
        raise
    except Exception as e:  # noqa
        return {"err": type(e).__name__}
    finally:
        Impl.load[lang]()


def impl_clone(lang, pos, lemma, base, extra, clone_first):
    """w = pos(lemma).base ; c = w.clone().extra ; both realized (order by `clone_first`) -> (form of w, form of c)"""
    Impl.load[lang]()
    try:
        w = Impl.cons[pos](lemma)
        for name, val in base:
            getattr(w, name)(val)
        c = w.clone()
        for name, val in extra:
            getattr(c, name)(val)
        res = {}
        for who in (("c", "w") if clone_first else ("w", "c")):
            Impl.cnt[0] = 0
            try:
                res[who] = realize_obj(c if who == "c" else w)
            except core.Infra:
                raise
            except Exception as e:  # noqa
                res[who] = {"err": type(e).__name__}
        return res["w"], res["c"]
    except core.Infra:
        raise
    except Exception as e:  # noqa
        return {"err": type(e).__name__}, {"err": type(e).__name__}


def same_form(a, ref):
    """same tokens, same text, same presence of warnings (or the same exception)"""
    if "err" in a or "err" in ref:
        return a.get("err") == ref.get("err")
    return a["toks"] == ref["toks"] and a["text"] == ref["text"] and (a["w"] > 0) == (ref["w"] > 0)


def brief(a):
    return a.get("err") or "%r%s" % (a["text"], " +warning" if a["w"] else "")


def run_meta_chunk(args):
    """worker for the two metamorphic strata: items ("lang", lang, pos, lemma, combos) or
    ("clone", lang, pos, lemma, [(base, extra), …])"""
    items = args
    impl_setup()
    load_data()
    Impl.realwarn = False
    res = {"n": 0, "fails": [], "digests": set(), "dist": {}, "samples": []}
    for it in items:
        kind, lang, pos, lemma = it[:4]
        ent = Data.lex[lang].get(norm(lemma))
        tab = ent[pos].get("tab") if isinstance(ent, dict) and isinstance(ent.get(pos), dict) else None
        if kind == "lang":
            for combo in it[4]:
                ref = impl_one(lang, pos, lemma, combo)
                for mode in ("explicit", "switched"):
                    a = impl_lang(lang, pos, lemma, combo, mode)
                    res["n"] += 1
                    res["dist"]["lang-" + mode] = res["dist"].get("lang-" + mode, 0) + 1
                    if ref.get("text") != lemma:
                        res["digests"].add(hashlib.md5(core.canon(["lang", mode, lang, pos, tab, combo, a]).encode()).digest())
                    if not same_form(a, ref):
                        res["fails"].append((signature(lang, pos, lemma, combo, "other-language-current-" + mode),
                                             {"op": "lang", "mode": mode, "lang": lang, "pos": pos, "lemma": lemma, "combos": [combo]},
                                             "%s(%r, %r) %s while %s is current: %s; alone: %s" % (
                                                 pos, lemma, lang, "built and realized" if mode == "explicit" else "realized",
                                                 "fr" if lang == "en" else "en", brief(a), brief(ref))))
                    if not res["samples"]:
                        res["samples"].append(({"op": "lang", "mode": mode, "lang": lang, "pos": pos, "lemma": lemma, "combos": [combo]}, a))
        else:
            for i, (base, extra) in enumerate(it[4]):
                ref_w = impl_one(lang, pos, lemma, base)
                ref_c = impl_one(lang, pos, lemma, base + extra)
                aw, ac = impl_clone(lang, pos, lemma, base, extra, clone_first=(i % 2 == 0))
                res["n"] += 1
                res["dist"]["clone"] = res["dist"].get("clone", 0) + 1
                if ref_w.get("text") != ref_c.get("text"):
                    res["digests"].add(hashlib.md5(core.canon(["clone", lang, pos, tab, base, extra, aw, ac]).encode()).digest())
                inp = {"op": "clone", "lang": lang, "pos": pos, "lemma": lemma, "base": base, "extra": extra,
                       "clone_first": (i % 2 == 0)}
                if not same_form(aw, ref_w):
                    res["fails"].append((signature(lang, pos, lemma, base, "clone-leaks-into-original") + "|" +
                                         ",".join(k for k, _ in extra), inp,
                                         "original realizes %s after its clone received %r; a fresh one: %s" % (brief(aw), extra, brief(ref_w))))
                if not same_form(ac, ref_c):
                    res["fails"].append((signature(lang, pos, lemma, base + extra, "clone-wrong-form"), inp,
                                         "clone realizes %s; a fresh word with the same options: %s" % (brief(ac), brief(ref_c))))
    if len(res["fails"]) > 300:
        seen = {}
        for f in res["fails"]:
            seen.setdefault(f[0], f)
        res["fails"] = list(seen.values())
    return res


def run_any(item):
    return (item[0], run_chunk(item[1]) if item[0] == "corr" else run_meta_chunk(item[1]))


def gen_meta(ctx, full):
    """items of the strata `lang` and `clone` (quick: the per-table representatives with sampled combinations;
    thorough: every A, Adv, D, Pro lemma and a 10 % sample of the nouns for `lang`; a wide sample for `clone`)"""
    rng = ctx.rng
    items = []
    scope = {}
    ext = {"N": [[["n", "p"]], [["g", "f"]], [["n", "p"], ["g", "f"]], [["n", "s"]]],
           "A": [[["f", "co"]], [["f", "su"]], [["g", "f"], ["n", "p"]], [["n", "p"]], [["f", "su"], ["g", "f"]]],
           "Adv": [[["f", "co"]], [["f", "su"]]],
           "D": [[["n", "p"]], [["g", "f"]], [["pe", 2]], [["ow", "p"]], [["pe", 1], ["ow", "p"]], [["pe", 3], ["g", "f"], ["n", "p"]]],
           "Pro": [[["pe", 3], ["n", "p"]], [["g", "f"]], [["tn", "refl"]], [["c", "acc"]], [["c", "nom"]], [["ow", "p"]],
                   [["pe", 2], ["c", "dat"]], [["n", "p"], ["tn", ""]], [["pe", 3], ["g", "f"], ["n", "p"]]]}
    bases = {"N": [[], [["n", "s"]], [["g", "m"]]], "A": [[], [["g", "m"]], [["f", "co"]]], "Adv": [[]],
             "D": [[], [["pe", 1]], [["pe", 1], ["n", "s"]], [["ow", "s"], ["pe", 3]]],
             "Pro": [[], [["pe", 1]], [["pe", 2]], [["pe", 3], ["g", "f"]], [["pe", 1], ["c", "nom"]]]}
    for lang in LANGS:
        for pos in POSES:
            groups = lemma_strata(lang, pos)
            reps, others = [], []
            for key in sorted(groups, key=repr):
                first = rng.choice(groups[key])
                reps.append(first)
                others += [l for l in groups[key] if l != first]
            combos = COMBOS[combos_key(lang, pos)]
            # --- lang
            if full:
                lemmas = reps + (others if pos != "N" else [l for l in others if rng.random() < 0.10])
            else:
                lemmas = reps + [l for l in others if rng.random() < 0.005]
            klang = None if (pos in ("A", "Adv", "N") or (full and pos == "D")) else (600 if full else 40)
            nlang = 0
            for l in lemmas:
                cs = combos if klang is None or len(combos) <= klang else rng.sample(combos, klang)
                items.append(("lang", lang, pos, l, cs))
                nlang += len(cs)
            # --- clone
            lem_c = reps + [l for l in others if rng.random() < (0.03 if full else 0.003)]
            if full and pos in ("D", "Pro"):
                lem_c = reps + others
            npairs = 0
            for l in lem_c:
                pairs = [(b, e) for b in bases[pos] for e in ext[pos]]
                if not full and len(pairs) > 12:
                    pairs = rng.sample(pairs, 12)
                items.append(("clone", lang, pos, l, pairs))
                npairs += len(pairs)
            scope["%s,%s" % (lang, pos)] = "lang: %d lemmas, %d forms x 2 modes; clone: %d lemmas, %d (base, change) pairs" % (
                len(lemmas), nlang, len(lem_c), npairs)
    return items, scope


def meta_chunks(items, size):
    out, cur, n = [], [], 0
    for it in items:
        cur.append(it)
        n += len(it[4]) * (3 if it[0] == "lang" else 4)
        if n >= size:
            out.append(cur)
            cur, n = [], 0
    if cur:
        out.append(cur)
    return out


# --------------------------------------------------------------------------------------------- generation

def lemma_strata(lang, pos):
    """lemmas of the lexicon for (lang,pos), grouped by table and by the lexicon flags the code looks at"""
    groups = {}
    for lemma, e in Data.lex[lang].items():
        if isinstance(e, dict) and isinstance(e.get(pos), dict):
            pe = e[pos]
            key = (pe.get("tab"), pe.get("g"), pe.get("cnt"), pe.get("n"), pe.get("pe"),
                   ("A" in e) if pos == "Adv" else None)
            groups.setdefault(key, []).append(lemma)
    return groups


SAMPLE = 0.02          # quick tier: share of the lemmas of a stratum drawn besides its representative


def gen_jobs(ctx, full):
    rng = ctx.rng
    jobs = []
    scope = {}
    for lang in LANGS:
        for pos in POSES:
            groups = lemma_strata(lang, pos)
            chosen = []
            for key in sorted(groups, key=repr):
                lemmas = groups[key]
                if full:
                    chosen += lemmas
                else:
                    first = rng.choice(lemmas)
                    chosen.append(first)
                    chosen += [l for l in lemmas if l != first and rng.random() < SAMPLE]
            ck = combos_key(lang, pos)
            if not full and pos == "Pro":
                # quick tier: the sub-product pe4 x tn3 x c6 x g{-,m,f} x n{-,s,p} x own{-,s} completely, plus a seeded 5 % of
                # the rest (g n/x, n x, own p/x)
                def small(c):
                    return not any((k == "g" and v in ("n", "x")) or (k == "n" and v == "x") or (k == "ow" and v in ("p", "x"))
                                   for k, v in c)
                core_ = [c for c in COMBOS[ck] if small(c)]
                rest = [c for c in COMBOS[ck] if not small(c)]
                for l in chosen:
                    jobs.append((lang, pos, l, None, core_ + [c for c in rest if rng.random() < 0.05], True))
                for l in chosen:
                    jobs.append((lang, pos, l, "Pro-str", None, True))
                scope["%s,%s" % (lang, pos)] = "%d lemmas x (%d + 5%% of %d) combinations + %d with pe as a string" % (
                    len(chosen), len(core_), len(rest), len(COMBOS["Pro-str"]))
                continue
            for l in chosen:
                jobs.append((lang, pos, l, ck, None, True))
            scope["%s,%s" % (lang, pos)] = "%d lemmas x %d combinations" % (len(chosen), len(COMBOS[ck]))
            if pos in ("D", "Pro"):
                for l in chosen:
                    jobs.append((lang, pos, l, pos + "-str", None, True))
                scope["%s,%s" % (lang, pos)] += " + %d with pe as a string" % len(COMBOS[pos + "-str"])
    return jobs, scope


def gen_malformed(ctx):
    """a separate stream: unknown lemmas, wrong part of speech, illegal option values and receivers, .maje(), repeated
    and reordered options, string persons, the ligature rewriting — correspondence only (the property is silent)"""
    rng = ctx.rng
    jobs = []
    vals = {"g": ["m", "f", "n", "x", "zz", "", None, 3], "n": ["s", "p", "x", "d", None, 1],
            "pe": [1, 2, 3, "1", "2", "3", 0, 4, "4", "x", None], "ow": ["s", "p", "x", "m", None],
            "tn": ["", "refl", "nom", None], "c": ["nom", "acc", "dat", "refl", "gen", "", "tn", None],
            "f": ["co", "su", "sup", "", None], "maje": [True, False, None, "x"]}
    names = list(vals)

    def rnd_combo(kmax=5):
        return [[k, rng.choice(vals[k])] for k in (rng.choice(names) for _ in range(rng.randint(0, kmax)))]

    for lang in LANGS:
        lex = Data.lex[lang]
        allw = sorted(lex)
        for pos in POSES:
            own = [l for l in allw if isinstance(lex[l], dict) and isinstance(lex[l].get(pos), dict)]
            other = [l for l in allw if isinstance(lex[l], dict) and pos not in lex[l]]
            picks = [rng.choice(own) for _ in range(30)] + [rng.choice(other) for _ in range(10)]
            picks += ["zzzqq", "", "Zq-x", "cœur", "œil", "sœur", "nævus", "bœuf", "manœuvre", "foetus"]
            lig = [l for l in own if "oe" in l or "ae" in l]
            picks += [rng.choice(lig).replace("oe", "œ").replace("ae", "æ") for _ in range(5)] if lig else []
            for l in picks:
                jobs.append((lang, pos, l, None, [rnd_combo() for _ in range(30)], False))
        # majestic forms of the possessive determiners and of every D / Pro
        for pos in ("D", "Pro"):
            own = [l for l in allw if isinstance(lex[l], dict) and isinstance(lex[l].get(pos), dict)]
            special = [l for l in ("my", "mon", "ton", "notre", "votre", "son", "leur", "our", "me", "moi", "je", "I") if l in own]
            sample = special + [rng.choice(own) for _ in range(8)]
            base = product(("maje", [True, False]), ("g", [ABS, "f"]), ("n", [ABS, "s", "p"]), ("pe", [ABS, 1, 2, 3, "2"]),
                           ("ow", [ABS, "s", "p"]))
            for l in sample:
                jobs.append((lang, pos, l, None, base, False))
        # options on receivers that do not allow them / values outside the enumerated space, every type
        for pos in POSES:
            own = [l for l in allw if isinstance(lex[l], dict) and isinstance(lex[l].get(pos), dict)]
            wrong = product(("f", [ABS, "co"]), ("tn", [ABS, "", "refl"]), ("c", [ABS, "nom", "gen"]), ("ow", [ABS, "p"]),
                            ("g", [ABS, "x", "n"]), ("n", [ABS, "x"]), ("pe", [ABS, "1", 2]))
            for _ in range(3):
                jobs.append((lang, pos, rng.choice(own), None, wrong, False))
        # .tn() / .c() without argument, repeated options (documentation style .g("m").g("f").g("n"))
        pro = [l for l in allw if isinstance(lex[l], dict) and isinstance(lex[l].get("Pro"), dict)]
        rep = [[["tn", None]], [["c", None]], [["tn", None], ["pe", 2]], [["g", "m"], ["g", "f"], ["g", "n"]],
               [["pe", 1], ["pe", 3], ["n", "p"], ["n", "s"]], [["c", "nom"], ["c", "acc"]], [["tn", "refl"], ["tn", ""]],
               [["n", "p"], ["g", "f"], ["pe", 2], ["ow", "p"], ["c", "dat"]], [["c", "dat"], ["ow", "p"], ["pe", 2], ["g", "f"], ["n", "p"]]]
        for l in pro:
            jobs.append((lang, "Pro", l, None, rep, False))
    return jobs


def gen_bestmatch(ctx, count):
    """synthetic tables for the bestMatch stream: ties, wildcards, person clashes, missing keys, None in the request"""
    rng = ctx.rng
    dom = {"g": ["m", "f", "n", "x"], "n": ["s", "p", "x"], "pe": [1, 2, 3], "own": ["s", "p", "x"], "tn": ["", "refl"],
           "c": ["nom", "acc", "dat", "refl", "gen"], "f": ["co", "su"], "pt": ["i", "d"]}
    keys = list(dom)
    lines = []
    for i in range(count):
        nk = rng.randint(1, 4)
        tk = rng.sample(keys, nk)
        rows = []
        for r in range(rng.randint(0, 7)):
            ks = [k for k in tk if rng.random() < 0.8]
            feats = [[k, (rng.choice(dom[k]) if not (k == "pe" and rng.random() < 0.1) else "x")] for k in ks]
            rows.append(["v%d" % r, feats])
        kk = [k for k in keys if (k in tk and rng.random() < 0.85) or rng.random() < 0.1]
        rng.shuffle(kk)
        kv = []
        for k in kk:
            v = rng.choice(dom[k])
            if k in ("g", "n") and rng.random() < 0.05:
                v = None
            if k == "tn" and rng.random() < 0.05:
                v = True
            kv.append([k, v])
        lines.append({"op": "bestmatch", "rows": rows, "kv": kv})
    return lines


def impl_bestmatch(line, dummy):
    rows = [dict([("val", v)] + [(k, x) for k, x in feats]) for v, feats in line["rows"]]
    kv = dict((k, v) for k, v in line["kv"])
    Impl.cnt[0] = 0
    try:
        r = dummy.bestMatch("x", rows, kv)
        if (r is None) != (Impl.cnt[0] > 0):
            return {"r": r, "warning_mismatch": True}
        return {"r": r}
    except Exception as e:  # noqa
        return {"err": type(e).__name__}


def run_bestmatch(ctx, count):
    impl_setup()
    Impl.realwarn = False
    Impl.load["en"]()
    lines = gen_bestmatch(ctx, count)
    # dict(kv) collapses duplicate keys: the generator produces none
    model = core.run_driver(lines, ctx.driver)
    n_none = n_tie = 0
    for l, m in zip(lines, model):
        if "driver_error" in m:
            raise core.Infra("driver error: " + m["driver_error"])
        dummy = Impl.cons["N"]("cat")
        a = impl_bestmatch(l, dummy)
        ctx.cov["traces_validated_against_impl"] += 1
        ctx.count(l, a, trivial=(a.get("r") is None))
        if core.canon({"r": m["r"]}) != core.canon(a):
            ctx.diff(l, {"r": m["r"]}, a)
        # oracle: declarative score and first arg-max, independent of both
        rows = [dict([("val", v)] + [(k, x) for k, x in feats]) for v, feats in l["rows"]]
        kv = dict((k, v) for k, v in l["kv"])
        sc = [row_score(r, kv) for r in rows]
        r = first_max(rows, kv)
        want = None if r is None else r["val"]
        if "err" in a or a.get("r") != want or a.get("warning_mismatch"):
            ctx.fail("bestMatch:not-first-max", l, "returned %r, first row of maximal positive score is %r (scores %r)" % (a, want, sc))
        if m["spec"] != sc or m["loop"] != sc:
            ctx.diff(l, {"spec": m["spec"], "loop": m["loop"]}, {"oracle_scores": sc})
        if want is None:
            n_none += 1
        elif sc.count(max(sc)) > 1:
            n_tie += 1
        if want is not None and not any(compatible(x, kv) or row_score(x, kv) > 0 for x in rows):
            ctx.fail("bestMatch:selected-without-positive-score", l, "")
        if any(compatible(x, kv) for x in rows) and a.get("r") is None:
            ctx.fail("bestMatch:compatible-row-not-selected", l, "a compatible row exists, None returned")
    ctx.notes["bestmatch_stream"] = {"lines": len(lines), "none": n_none, "ties_for_max": n_tie}


def check_tables(ctx):
    """the generated Lean tables, read back from the driver, must denote rules-*.json:declension"""
    for lang in LANGS:
        (ans,) = core.run_driver([{"op": "tables", "lang": lang}], ctx.driver)
        got = [[n, t["ending"], [[v, [[k, x] for k, x in f]] for v, f in t["rows"]]] for n, t in ans["tables"]]
        want = [[n, t["ending"], [[r["val"], [[k, x] for k, x in r.items() if k != "val"]] for r in t["declension"]]]
                for n, t in Data.rules[lang].items()]
        if core.canon(got) != core.canon(want):
            bad = [g[0] for g, w in zip(got, want) if core.canon(g) != core.canon(w)][:5]
            ctx.diff({"op": "tables", "lang": lang}, {"tables_differ": bad, "n": len(got)}, {"n": len(want)})
    (w,) = core.run_driver([{"op": "tbl-witness"}], ctx.driver)
    ctx.notes["doc_cells"] = {"cells": w["cells"], "disagreeing": len(w["bad"])}
    return w["bad"]


def check_lexicon_keys(ctx):
    bad = []
    forbidden = {"maje", "poss", "cap", "tag", "a", "b", "en", "ba", "lier", "own", "tn", "c", "f"}
    for lang in LANGS:
        for lemma, e in Data.lex[lang].items():
            if isinstance(e, dict):
                for pos in POSES:
                    if isinstance(e.get(pos), dict) and forbidden & set(e[pos]):
                        bad.append((lang, lemma, pos))
    ctx.notes["lexicon_entries_with_option_named_keys"] = len(bad)
    if bad:
        ctx.diff({"op": "lexicon-keys"}, {"assumed": 0}, {"found": bad[:5]})


def doc_cell_failures(ctx, bad_cells):
    """documented cells the model (proved equal to the tables' prescription) does not reproduce: replay them on the
    implementation — a cell the implementation does not reproduce either is a failing input"""
    impl_setup()
    Impl.realwarn = False
    for c in bad_cells:
        combo = [[k, v] for k, v in c["opts"]]
        a = impl_one(c["lang"], c["pos"], c["lemma"], combo)
        if a.get("text") != c["form"]:
            ctx.fail(signature(c["lang"], c["pos"], c["lemma"], combo, "doc-cell"),
                     {"op": "decl", "lang": c["lang"], "pos": c["pos"], "lemma": c["lemma"], "combos": [combo]},
                     "documentation.html shows %r, realized %r" % (c["form"], a.get("text", a.get("err"))))


def run_doc_cells_on_impl(ctx):
    """every documented cell replayed on the implementation (the oracle side of doc_cells_tbl)"""
    from harness.translate import doccells
    impl_setup()
    Impl.realwarn = False
    n = 0
    for (lang, pos, lemma, opts, form) in doccells.load_cells():
        combo = [[k, v] for k, v in opts]
        a = impl_one(lang, pos, lemma, combo)
        n += 1
        line = {"op": "decl", "lang": lang, "pos": pos, "lemma": lemma, "combos": [combo], "documented": form}
        ctx.count(line, a, trivial=False)
        if a.get("text") != form:
            ctx.fail(signature(lang, pos, lemma, combo, "doc-cell"), line,
                     "documentation.html shows %r, realized %r" % (form, a.get("text", a.get("err"))))
    ctx.notes.setdefault("doc_cells", {})["replayed_on_impl"] = n


def chunks(jobs, size_forms):
    out, cur, n = [], [], 0
    for j in jobs:
        k = len(COMBOS[j[3]]) if j[3] is not None else len(j[4])
        cur.append(j)
        n += k
        if n >= size_forms:
            out.append(cur)
            cur, n = [], 0
    if cur:
        out.append(cur)
    return out


def run(ctx, deep=False):
    t0 = time.time()
    load_data()
    impl_setup()
    full = (ctx.tier == "thorough") or deep
    check_lexicon_keys(ctx)
    bad_cells = check_tables(ctx)
    if bad_cells:
        doc_cell_failures(ctx, bad_cells)
    run_doc_cells_on_impl(ctx)
    run_bestmatch(ctx, 30000 if full else 4000)

    jobs, scope = gen_jobs(ctx, full)
    mal = gen_malformed(ctx)
    ctx.rng.shuffle(jobs)                       # balance the chunks
    work = [(c, ctx.driver, False, True) for c in chunks(jobs, 12000)]
    # a 3 % sample of the chunks runs the real warn() (message generation, one stderr line per warning)
    for i in range(len(work)):
        if ctx.rng.random() < 0.03:
            work[i] = (work[i][0], ctx.driver, True, True)
    work += [(c, ctx.driver, True, False) for c in chunks(mal, 4000)]
    work = [("corr", w) for w in work]
    meta_items, meta_scope = gen_meta(ctx, full)
    ctx.rng.shuffle(meta_items)
    work += [("meta", c) for c in meta_chunks(meta_items, 6000)]
    tot = {"n": 0, "nontrivial": 0, "warned": 0, "errs": 0, "oracle_checked": 0}
    dist = {}
    unusable = []
    meta_n = {}
    nproc = min(16, max(1, len(work)))
    mpctx = multiprocessing.get_context("fork")
    with mpctx.Pool(nproc) as pool:
        for kind_, res in pool.imap_unordered(run_any, work, chunksize=1):
            if kind_ == "meta":
                for k, v in res["dist"].items():
                    meta_n[k] = meta_n.get(k, 0) + v
                ctx.distinct.update(res["digests"])
                ctx.cov["evaluations"] += res["n"]
                for (l, a) in res["samples"]:
                    if len(ctx.cov["samples"]) < 12:
                        ctx.cov["samples"].append({"line": l, "answer": a})
                for (sig, inp, detail) in res["fails"]:
                    ctx.fail(sig, inp, detail)
                continue
            for k in tot:
                tot[k] += res[k]
            for k, v in res["dist"].items():
                dist[k] = dist.get(k, 0) + v
            unusable += res["unusable"]
            ctx.distinct.update(res["digests"])
            ctx.cov["evaluations"] += res["n"]
            ctx.cov["traces_validated_against_impl"] += res["n"]
            for (l, a) in res["samples"]:
                if len(ctx.cov["samples"]) < 12:
                    ctx.cov["samples"].append({"line": l, "answer": a})
            for (l, m, a) in res["diffs"]:
                ctx.diff(l, m, a)
            if res.get("diffs_more"):
                ctx.notes["corr_diffs_truncated"] = ctx.notes.get("corr_diffs_truncated", 0) + res["diffs_more"]
            for (sig, inp, detail) in res["fails"]:
                ctx.fail(sig, inp, detail)
    if full and not deep:
        ctx.exhaustive = True
        ctx.notes["exhaustive_scope"] = ("every N, A, Adv, D, Pro entry of both lexicons x the option combinations of META.rule: "
                                         + "; ".join("%s: %s" % kv for kv in sorted(scope.items())))
    else:
        ctx.notes["sample_scope"] = scope
    ctx.notes["forms"] = tot
    ctx.notes["wf_sweep"] = {"entries_checked": len(jobs), "entries_failing_usableB": len(unusable),
                             "first_failing": sorted(unusable)[:10]}
    ctx.notes["distribution(lang,pos)"] = dist
    ctx.notes["malformed_stream_lines"] = len(mal)
    ctx.notes["metamorphic_strata"] = {"checked": meta_n, "scope": meta_scope}
    ctx.notes["correspondence_wall_s"] = round(time.time() - t0, 1)


def search(ctx):
    """deeper search on the implementation when a proof or the correspondence broke: the complete space"""
    if ctx.tier == "thorough" and ctx.cov["evaluations"]:
        return
    run(ctx, deep=True)


def replay(path):
    d = json.load(open(path, encoding="utf-8"))
    inp = d.get("input", {})
    line = inp.get("input", inp)
    load_data()
    impl_setup()
    Impl.realwarn = False
    if line.get("op") == "lang":
        for combo in line["combos"]:
            print(json.dumps({"input": line, "other_language_current": impl_lang(line["lang"], line["pos"], line["lemma"], combo, line["mode"]),
                              "alone": impl_one(line["lang"], line["pos"], line["lemma"], combo)}, ensure_ascii=False))
        return 0
    if line.get("op") == "clone":
        aw, ac = impl_clone(line["lang"], line["pos"], line["lemma"], line["base"], line["extra"], line.get("clone_first", True))
        print(json.dumps({"input": line, "original_after_clone_changed": aw, "clone": ac,
                          "fresh_original": impl_one(line["lang"], line["pos"], line["lemma"], line["base"]),
                          "fresh_with_change": impl_one(line["lang"], line["pos"], line["lemma"], line["base"] + line["extra"])},
                         ensure_ascii=False))
        return 0
    if line.get("op") == "bestmatch":
        Impl.load["en"]()
        print(json.dumps(impl_bestmatch(line, Impl.cons["N"]("cat")), ensure_ascii=False))
        return 0
    for combo in line.get("combos", [[]]):
        a = impl_one(line["lang"], line["pos"], line["lemma"], combo)
        sp = spec_form(line["lang"], line["pos"], norm(line["lemma"]), combo)
        print(json.dumps({"input": [line["lang"], line["pos"], line["lemma"], combo], "implementation": a,
                          "prescribed": sp, "documented": line.get("documented")}, ensure_ascii=False))
    return 0
