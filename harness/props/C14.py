"""C14 — output depends only on expression, current language and lexicon contents; resources not mutated.

Lean side: Model/Globals.lean (footprint model), Props/C14.lean (non-interference for all histories; `decide`
theorems over the write inventory Gen/Sites.lean regenerated from src/pyrealb/*.py on every run).
Correspondence / failing-input search: random histories of public API operations run in a child forked from a
PRISTINE parent (pyrealb imported, nothing executed), followed by a set of probe expressions; compared with the
same probes in another pristine fork ("fresh interpreter"); the lexicons and rule tables are deep-hashed
against the pristine state (assumption A_alias is monitored this way); the current language after every step is
compared with the model's prediction.
"""
import hashlib
import io
import json
import os
import pickle
import sys
import multiprocessing

from harness import core
from harness.impl import corpus, exprgen

META = {
    "driver": "drv_globals",
    "ops": "ghist",
    "translators": ["sites"],
    "technique": "Lean 4 proof of non-interference on a footprint model + kernel-checked write inventory regenerated from the "
                 "source + history-vs-fresh-interpreter correspondence",
    "level_text": "Kernel-checked: for every history of non-management operations the probe's text equals that of a fresh "
                  "process with the same current language, resources are unchanged, the language is that of the last load "
                  "(induction over histories, footprint model); and by `decide +kernel` over the write inventory regenerated "
                  "from src/pyrealb/*.py on each run: every write to a module global, class attribute, the lexicon object or "
                  "a value obtained from getLexicon/getRules/getLemma is one of the model's writes, in a function allowed to "
                  "make it (lexicons only in addToLexicon/updateLexicon, rule tables nowhere, language only in loadEn/loadFr), "
                  "no mutable default argument, no cache decorator. Tie: random API histories in forked pristine "
                  "interpreters vs fresh ones; deep hash of lexicons/rules.",
    "level_note": "PARTIAL. The model takes the realizer as a parameter of (language, resources, expression): that realization "
                  "READS no other global (A_reads) and that no write reaches lexicon/rule data through an alias stored in an "
                  "object attribute (A_alias) are assumptions the static inventory cannot see; both are monitored dynamically "
                  "by the history-vs-fresh comparison and the deep hashes, on the generated histories only.",
    "rule": "history = 3..40 random public-API operations (load/loadEn/loadFr, build+realize of expressions harvested from "
            "the repository's tests in their own or the other language, clone, JSON and source round trips, str(), warnings, "
            "malformed constructions that raise, oneOf/choice/mix, a few lexicon-management calls), then every probe expression "
            "under its language; non-trivial = a history whose canonical op list is new and contains at least one realization",
    "assumptions": ["A_reads: realization reads only the current language and the four resources",
                    "A_alias: no write reaches lexicon or rule data through an alias held in an object attribute",
                    "a forked child of a parent that only imported pyrealb stands for a fresh interpreter"],
    "trusted": ["harness/translate/sites.py (AST write inventory: flow-insensitive, one function at a time)"],
}

_G = {}


def _init_parent():
    if _G:
        return
    core.ensure_repo_on_path()
    import pyrealb  # noqa: F401  (the parent only imports; it never builds or realizes anything)
    _G["ns"] = corpus.namespace()
    _G["corpus"] = [e for e in corpus.load() if not e["setup"]]
    from pyrealb import getLexicon, getRules
    _G["pristine"] = res_hashes()
    _G["pristine_state"] = state_fingerprint()


def state_fingerprint():
    """Fingerprint of every piece of process-wide state of the library OTHER than the four resources, the current
    language, the debug counters and the oneOf memory: module globals, class attributes, and — because an option
    table or a flag can hide there — the default arguments and closure cells of every function and method.
    Monitors the assumption A_reads (nothing else that realization could read is changed by a history)."""
    import types
    skip_names = {"pyrealb_oneOf_dict", "pyrealb_datecreated", "__lexicon", "_Lexicon__lexicon", "__builtins__", "__cached__",
                  "__loader__", "__spec__", "__file__", "__doc__", "__name__", "__package__", "__path__"}
    seen = set()
    out = []

    def val(v, depth=0):
        if isinstance(v, (str, int, float, bool, type(None), bytes)):
            return repr(v)
        if depth > 6:
            return "<deep>"
        if isinstance(v, (list, tuple)):
            return "[" + ",".join(val(x, depth + 1) for x in v) + "]"
        if isinstance(v, (set, frozenset)):
            return "{" + ",".join(sorted(val(x, depth + 1) for x in v)) + "}"
        if isinstance(v, dict):
            return "{" + ",".join(sorted(val(k, depth + 1) + ":" + val(x, depth + 1) for k, x in v.items())) + "}"
        if isinstance(v, types.FunctionType):
            return func(v)
        if isinstance(v, (staticmethod, classmethod)):
            return func(v.__func__)
        if isinstance(v, types.ModuleType):
            return "<module %s>" % v.__name__
        if isinstance(v, type):
            return "<class %s>" % v.__name__
        if hasattr(v, "pattern") and hasattr(v, "flags"):
            return "<re %r %d>" % (v.pattern, v.flags)
        return "<%s>" % type(v).__name__

    def func(f):
        if id(f) in seen:
            return "<fn %s>" % f.__qualname__
        seen.add(id(f))
        parts = ["fn", f.__qualname__, val(f.__defaults__), val(f.__kwdefaults__)]
        if f.__closure__:
            cells = {}
            for name, cell in zip(f.__code__.co_freevars, f.__closure__):
                try:
                    cells[name] = cell.cell_contents
                except ValueError:
                    cells[name] = "<empty>"
            # makeOptionMethod initialises `optionName` lazily to `option` on the first call (idempotent): normalise
            if "optionName" in cells and cells["optionName"] is None and "option" in cells:
                cells["optionName"] = cells["option"]
            for name in sorted(cells):
                parts.append(name + "=" + val(cells[name], 1))
        return "(" + " ".join(parts) + ")"

    for mname, m in sorted(sys.modules.items()):
        if not mname.startswith("pyrealb") or m is None:
            continue
        for k, v in sorted(vars(m).items()):
            if k in skip_names:
                continue
            if isinstance(v, type) and getattr(v, "__module__", "").startswith("pyrealb"):
                for ck, cv in sorted(vars(v).items()):
                    if ck in ("pengNO", "tauxNO", "debug") or (ck.startswith("__") and ck.endswith("__") and not callable(cv)):
                        continue   # counters; CPython bookkeeping such as __slotnames__ (added by copy/pickle)
                    out.append("%s.%s.%s=%s" % (mname, k, ck, val(cv)))
            elif isinstance(v, types.FunctionType):
                if getattr(v, "__module__", "").startswith("pyrealb"):
                    out.append("%s.%s=%s" % (mname, k, func(v)))
            elif isinstance(v, types.ModuleType):
                continue
            else:
                if type(v).__name__ == "Lexicon":
                    continue
                out.append("%s.%s=%s" % (mname, k, val(v)))
    return hashlib.md5("\n".join(out).encode("utf-8", "replace")).hexdigest(), out


def res_hashes():
    from pyrealb import getLexicon, getRules
    out = {}
    for name, obj in (("lexEn", getLexicon("en")), ("lexFr", getLexicon("fr")), ("rulesEn", getRules("en")),
                      ("rulesFr", getRules("fr"))):
        out[name] = hashlib.md5(pickle.dumps(obj, protocol=4)).hexdigest()
    out["otherState"] = state_fingerprint()[0]
    return out


PROBE_EXTRA = [
    ("en", 'S(NP(D("the"),N("cat").n("p")),VP(V("eat").t("ps"),NP(D("a"),N("apple")))).typ({"neg":True,"perf":True})'),
    ("en", 'NP(NO(3),N("mouse"))'),
    ("en", 'S(Pro("I").pe(3).g("f"),VP(V("be"),A("happy"))).typ({"int":"yon"})'),
    ("en", 'DT("2024-02-29T13:05:00").dOpt({"second":False})'),
    ("en", 'root(V("love"),subj(N("dog"),det(D("a"))),comp(N("bone").n("p"),det(D("the")))).typ({"pas":True})'),
    ("fr", 'S(NP(D("le"),N("chat").n("p")),VP(V("manger").t("pc"),NP(D("un"),N("souris")))).typ({"neg":True})'),
    ("fr", 'NP(NO(2).nat(True),N("cheval"))'),
    ("fr", 'S(Pro("je").pe(2),VP(V("aller").t("f"),PP(P("à"),NP(D("le"),N("école"))))).typ({"int":"yon"})'),
    ("fr", 'DT("2024-02-29T13:05:00").dOpt({"second":False})'),
    ("fr", 'root(V("aimer"),subj(N("homme"),det(D("le"))),comp(N("arbre").n("p"),det(D("un")))).typ({"pas":True})'),
    ("fr", 'NP(D("le"),A("beau"),N("hôtel"))'),
    ("en", 'N("xyzzyq")'),
    ("en", 'NP(D("my").pe(1).ow("p"),N("house"))'),
    ("en", 'S(Pro("I").pe(\'2\'),VP(V("sing")))'),
    ("fr", 'S(Pro("je").pe(\'2\'),VP(V("chanter")))'),
    ("fr", 'NP(D("mon").pe(2).n("p"),N("maison"))'),
    ("fr", 'V("apparaître").t("pc").pe(3).n("p")'),
    # adverb placement across a relative clause (checkAdverbPos consults the tables of relative pronouns / prepositions)
    ("fr", 'S(Pro("je").pe(1),VP(V("attendre").t("pc"),NP(D("le"),N("jour"),SP(Pro("où"),VP(V("arriver"),Adv("enfin"),NP(D("le"),N("train")))))))'),
    ("fr", 'S(Pro("je").pe(3),VP(V("voir").t("pc"),NP(D("le"),N("fille"),SP(Pro("dont"),VP(V("parler"),Adv("souvent"),NP(D("le"),N("voisin")))))))'),
    ("en", 'S(Pro("I").pe(1),VP(V("see").t("ps").typ({"perf":True}),NP(D("the"),N("girl"),SP(Pro("who"),VP(V("sing"),Adv("often"))))))'),
    # questions on a prepositional complement (the prefix tables of the rules are read here)
    ("fr", 'S(Pro("je").pe(3),VP(V("parler"),PP(P("à"),NP(D("le"),N("fille"))))).typ({"int":"woi"})'),
    ("fr", 'S(Pro("je").pe(3),VP(V("penser"),PP(P("à"),NP(D("le"),N("problème"))))).typ({"int":"wai"})'),
    ("en", 'S(Pro("I").pe(3),VP(V("speak"),PP(P("to"),NP(D("the"),N("girl"))))).typ({"int":"woi"})'),
]


def probes():
    c = _G["corpus"]
    step = max(1, len(c) // 70)
    ps = [(e["lang"], e["src"]) for e in c[::step]]
    return ps + PROBE_EXTRA


class Quiet:
    def __enter__(self):
        self.old = sys.stderr
        self.oldout = sys.stdout
        sys.stderr = self.buf = io.StringIO()
        sys.stdout = io.StringIO()   # some library messages go to stdout (print(..., sys.stderr) without file=)
        return self

    def __exit__(self, *a):
        sys.stderr = self.old
        sys.stdout = self.oldout

    def nwarn(self):
        return len([l for l in self.buf.getvalue().split("\n") if l.strip()])


def do_load(lang):
    from pyrealb import loadEn, loadFr
    (loadEn if lang == "en" else loadFr)()


def ev(src):
    return eval(src, dict(_G["ns"]))


def exec_op(op):
    """executes one history op on the real library; returns nothing (state is the point), except for an inline probe
    (["probe", lang, src]: explicit load, build, realize) whose text and warning count are part of the comparison"""
    import pyrealb
    kind = op[0]
    if kind == "probe":
        do_load(op[1])
        with Quiet() as q:
            try:
                txt = ev(op[2]).realize()
            except Exception as e:  # noqa
                txt = "EXC:" + type(e).__name__
        return [txt, q.nwarn()]
    with Quiet():
        try:
            if kind == "loadEn":
                pyrealb.loadEn()
            elif kind == "loadFr":
                pyrealb.loadFr()
            elif kind == "loadOther":
                pyrealb.load(op[1])
            elif kind == "build":
                ev(op[1])
            elif kind == "realize":
                ev(op[1]).realize()
            elif kind == "str":
                str(ev(op[1]))
            elif kind == "clone":
                e = ev(op[1])
                c = e.clone()
                c.realize()
                e.realize()
            elif kind == "toJSON":
                ev(op[1]).toJSON()
            elif kind == "fromJSON":
                j = ev(op[1]).toJSON()
                pyrealb.fromJSON(json.loads(json.dumps(j))).realize()
            elif kind == "toSource":
                s = ev(op[1]).toSource()
                ev(s).realize()
            elif kind == "warn":
                ev(op[1]).realize()
            elif kind == "realize2":
                do_load(op[2])
                try:
                    e = ev(op[1])
                finally:
                    do_load(op[3])
                e.realize()
            elif kind == "oneOf":
                for _ in range(op[2]):
                    getattr(pyrealb, op[1])(*op[3])
            elif kind == "lexAdd":
                pyrealb.addToLexicon(op[2], op[3], op[1])
            elif kind == "lemmata":
                pyrealb.buildLemmataMap(op[1])
        except Exception:  # exceptions are C07's business; here only the state afterwards matters
            pass


def run_probes():
    out = []
    for lang, src in probes():
        do_load(lang)
        with Quiet() as q:
            try:
                txt = ev(src).realize()
            except Exception as e:
                txt = "EXC:" + type(e).__name__
        out.append([txt, q.nwarn()])
    return out


NOLOAD_PROBES = ['NP(D("the"),N("cat")).n("p")', 'NP(D("le"),N("chat")).n("p")', 'S(Pro("I"),VP(V("sleep").t("ps")))',
                 'S(Pro("je"),VP(V("dormir").t("pc")))', 'N("homme")', 'A("grand").f("co")']


def run_noload_probes():
    """probes built and realized WITHOUT an explicit load: they see the language the history left current; the fresh
    interpreter they are compared with ran the same explicit loads and nothing else"""
    import pyrealb
    out = []
    for src in NOLOAD_PROBES:
        with Quiet() as q:
            try:
                txt = ev(src).realize()
            except Exception as e:  # noqa
                txt = "EXC:" + type(e).__name__
        out.append([txt, q.nwarn(), pyrealb.getLanguage()])
    return out


def child_history(hist):
    import pyrealb
    langs = []
    inline = []
    for op in hist:
        r = exec_op(op)
        if op[0] == "probe":
            inline.append(r)
        langs.append(pyrealb.getLanguage())
    noload = run_noload_probes()
    h = res_hashes()
    fp = state_fingerprint()
    changed = None
    if "pristine_state" in _G and fp[0] != _G["pristine_state"][0]:
        a, b = set(_G["pristine_state"][1]), set(fp[1])
        changed = sorted(x.split("=")[0] for x in (a ^ b))[:6]
    return {"langs": langs, "probes": run_probes(), "hashes": h, "state_changed": changed, "inline": inline, "noload": noload}


def _task(arg):
    kind, hist = arg
    return child_history(hist)


MODEL_NAME = {"loadEn": "loadEn", "loadFr": "loadFr", "loadOther": "loadOther", "build": "build", "realize": "realize",
              "str": "realize", "clone": "clone", "toJSON": "toJSON", "fromJSON": "fromJSON", "toSource": "toSource",
              "warn": "warn", "oneOf": "oneOf", "lemmata": "build"}


def model_ops(op):
    """the model operations one history op stands for"""
    if op[0] == "lexAdd":
        return ["lexAdd:" + (op[1] or "cur")]
    if op[0] == "lemmata":      # buildLemmataMap(lang) loads lang
        return ["loadEn" if op[1] == "en" else "loadFr"]
    if op[0] == "probe":        # explicit load, build, realize
        return ["loadEn" if op[1] == "en" else "loadFr", "build", "realize"]
    if op[0] == "realize2":     # build under one language, realize under another
        return ["loadEn" if op[2] == "en" else "loadFr", "build", "loadEn" if op[3] == "en" else "loadFr", "realize"]
    return [MODEL_NAME[op[0]]]


WARNERS = ['CP(C("or"),D("my").pe(1),D("my").pe(2)).ow("p")', 'Pro("je").pe()', 'N("cat").n()', 'V("go").t()', 'CP(C("et"),A("grand"),A("fort")).f("co")',
           'N("qwxz")', 'V("love").t("zz")', 'NP(D("the"),N("cat")).n("x")', 'S(VP(V("glorp")))', 'A("grand").f("zz")',
           'NO("abc")', 'DT("not a date")', 'N("chat").g("q")', 'Pro("zzz")', 'S(3)', 'NP(None, N("cat")).typ({"zzz":1})',
           'root()', 'VP()', 'S(NP(), VP(V("go")))', 'N(None)', 'V("aller").t("pc").aux("zz")']


def gen_history(rng, with_mgmt):
    c = _G["corpus"]
    n = rng.randint(3, 40)
    hist = []
    cur = "en"
    fresh_id = rng.randint(0, 10 ** 6)
    for _ in range(n):
        r = rng.random()
        if r < 0.10:
            cur = rng.choice(["en", "fr"])
            hist.append(["loadEn" if cur == "en" else "loadFr"])
        elif r < 0.13:
            hist.append(["loadOther", rng.choice(["es", "", "EN", "de"])])
        elif r < 0.70:
            e = rng.choice(c)
            if rng.random() < 0.75 and e["lang"] != cur:
                cur = e["lang"]
                hist.append(["loadEn" if cur == "en" else "loadFr"])
            hist.append([rng.choice(["realize"] * 6 + ["build", "str", "clone", "toJSON", "fromJSON", "toSource"]), e["src"]])
        elif r < 0.78:
            hist.append(["warn", rng.choice(WARNERS)])
        elif r < 0.85:
            # generated expressions (valid or malformed, explicit lang= or not), built under one language and realized
            # under a possibly different one: warnings of constituents of one language while the other is current
            g = exprgen.generate(rng, 1, malformed=rng.choice([0.0, 0.15, 0.4]))[0]
            b, rl = g["lang"], rng.choice(["en", "fr"])
            hist.append(["realize2", g["src"], b, rl])
            cur = rl
        elif r < 0.95 or not with_mgmt:
            alts = [["a", "b", "c"], ["x", "y"], [1, 2, 3, 4]][rng.randrange(3)]
            hist.append(["oneOf", rng.choice(["oneOf", "choice", "mix"]), rng.randint(1, 6), alts])
        else:
            fresh_id += 1
            lemma = "zzverif%d" % fresh_id
            tl = rng.choice([None, "en", "fr"])
            target = tl or cur
            use = ('NP(D("the"),N("%s")).n("p")' if target == "en" else 'NP(D("le"),N("%s")).n("p")') % lemma
            if rng.random() < 0.6:          # the lemma is looked up (and missed) BEFORE it is added
                hist.append(["probe", target, use])
                cur = target
                if tl is None and rng.random() < 0.5:
                    other = "fr" if target == "en" else "en"
                    hist.append(["loadEn" if other == "en" else "loadFr"])
                    hist.append(["loadEn" if target == "en" else "loadFr"])
            hist.append(["lexAdd", tl, lemma, {"N": {"tab": "n1"} if target == "en" else {"g": "m", "tab": "n3"}}])
            if rng.random() < 0.8:          # … and used afterwards: only the lexicon contents may matter
                hist.append(["probe", target, use])
                cur = target
            if rng.random() < 0.3:          # an existing entry replaced, then used
                w = "cat" if target == "en" else "chat"
                hist.append(["probe", target, use.replace(lemma, w)])
                hist.append(["lexAdd", target, w, {"N": {"tab": "n5"} if target == "en" else {"g": "f", "tab": "n17"}}])
                hist.append(["probe", target, use.replace(lemma, w)])
                cur = target
    return hist


def opsig(op):
    k = op[0]
    if k in ("realize", "build", "str", "clone", "toJSON", "fromJSON", "toSource", "warn", "realize2"):
        head = op[1].split("(")[0]
        return "%s:%s" % (k, head)
    if k == "probe":
        return "probe:%s:%s" % (op[1], op[2].split("(")[0])
    if k == "oneOf":
        return "oneOf:" + op[1]
    if k == "lexAdd":
        return "lexAdd:" + (op[1] or "cur")
    return k


def fork_run(hist):
    """runs one history + probes in a child forked from this (pristine) process"""
    r, w = os.pipe()
    pid = os.fork()
    if pid == 0:
        os.close(r)
        try:
            res = child_history(hist)
            data = json.dumps(res).encode()
        except BaseException as e:  # noqa
            data = json.dumps({"child_error": repr(e)}).encode()
        with os.fdopen(w, "wb") as f:
            f.write(data)
        os._exit(0)
    os.close(w)
    with os.fdopen(r, "rb") as f:
        data = f.read()
    os.waitpid(pid, 0)
    return json.loads(data.decode())


def mgmt_part(hist):
    """what the fresh interpreter executes: the management calls, the inline probes that follow the first of them (they
    read the edited lexicon) and the language switches that select their target; without any management call only the
    LAST language switch (it decides what the no-load probes see)"""
    mg = []
    seen_mgmt = False
    for op in hist:
        if op[0] == "lexAdd":
            seen_mgmt = True
            mg.append(op)
        elif op[0] in ("loadEn", "loadFr", "loadOther"):
            mg.append(op)
        elif op[0] == "probe":
            mg.append(op if seen_mgmt else ["loadEn" if op[1] == "en" else "loadFr"])
        elif op[0] == "realize2":
            mg.append(["loadEn" if op[3] == "en" else "loadFr"])
        elif op[0] == "lemmata":
            mg.append(["loadEn" if op[1] == "en" else "loadFr"])
    if any(op[0] == "lexAdd" for op in mg):
        return mg
    # only the switches since (and including) the last loadEn/loadFr matter (load("es") etc. depend on what is current)
    last = max([i for i, op in enumerate(mg) if op[0] in ("loadEn", "loadFr")], default=None)
    return mg[last:] if last is not None else mg


def inline_after_mgmt(hist, inline):
    """the outputs of the inline probes that follow the first management call (those the fresh run repeats)"""
    out, k, seen = [], 0, False
    for op in hist:
        if op[0] == "lexAdd":
            seen = True
        elif op[0] == "probe":
            if seen:
                out.append(inline[k])
            k += 1
    return out


def compare(hist, res, fr):
    """how the outcome of a history differs from the fresh interpreter's, or None"""
    ps = probes()
    for i, (a, b) in enumerate(zip(res["probes"], fr["probes"])):
        if a != b:
            return {"what": "probe", "probe": ps[i], "after_history": a, "fresh": b}
    a, b = inline_after_mgmt(hist, res.get("inline", [])), fr.get("inline", [])
    if a != b:
        i = next((i for i, (x, y) in enumerate(zip(a, b)) if x != y), None)
        return {"what": "inline", "after_history": a if i is None else a[i], "fresh": b if i is None else b[i],
                "note": "a probe realized after a lexicon-management call: only the lexicon contents may matter, not the look-ups made before"}
    for i, (a, b) in enumerate(zip(res.get("noload", []), fr.get("noload", []))):
        if a != b:
            return {"what": "noload", "probe": NOLOAD_PROBES[i], "after_history": a, "fresh": b,
                    "note": "[text, warnings, getLanguage()] of an expression built without an explicit load after the history; the fresh interpreter ran the same explicit loads only"}
    for k in res["hashes"]:
        if k != "otherState" and res["hashes"][k] != fr["hashes"][k]:
            return {"what": "resource", "resource": k, "state_changed": res.get("state_changed")}
    return None


def other_state_differs(res, fr):
    """module globals / class attributes / closure cells other than the lexicons and rule tables differ from the fresh
    interpreter's: NOT a violation by itself (the property speaks of the text and of the lexicons and rules), but the
    assumption under which history independence was proved (A_reads: nothing else is written) no longer holds"""
    return res["hashes"].get("otherState") != fr["hashes"].get("otherState")


def differs(hist, fresh_of):
    """returns a description of how the history's probes/hashes differ from the fresh run, or None"""
    res = fork_run(hist)
    mg = mgmt_part(hist)
    key = core.canon(mg)
    if key not in fresh_of:
        fresh_of[key] = fork_run(mg)
    fr = fresh_of[key]
    if "child_error" in res or "child_error" in fr:
        return None
    return compare(hist, res, fr)


def shrink(hist, fresh_of, what):
    cur = list(hist)
    changed = True
    budget = 60
    while changed and budget > 0:
        changed = False
        i = 0
        while i < len(cur) and budget > 0:
            cand = cur[:i] + cur[i + 1:]
            budget -= 1
            d = differs(cand, fresh_of)
            if d and d["what"] == what:
                cur = cand
                changed = True
            else:
                i += 1
    return cur


def run(ctx, deep=False):
    _init_parent()
    rng = ctx.rng
    nh = {"quick": 160, "thorough": 2400}[ctx.tier] * (3 if deep else 1)
    hists = [gen_history(rng, with_mgmt=(i % 4 == 0)) for i in range(nh)]
    if ctx.tier == "thorough":
        hists.append([["lemmata", "en"]])
        hists.append([["loadFr"], ["lemmata", "fr"]])
    # corpus replays first
    cdir = os.path.join(core.VERIF, "corpus", "C14")
    if os.path.isdir(cdir):
        for fn in sorted(os.listdir(cdir)):
            hists.insert(0, json.load(open(os.path.join(cdir, fn)))["history"])
    # fresh runs, one per distinct list of management ops
    mgkeys = {}
    for h in hists:
        mg = mgmt_part(h)
        mgkeys.setdefault(core.canon(mg), mg)
    mpctx = multiprocessing.get_context("fork")
    with mpctx.Pool(processes=min(16, os.cpu_count() or 4), maxtasksperchild=1) as pool:
        fresh_list = pool.map(_task, [("fresh", mg) for mg in mgkeys.values()], chunksize=1)
        results = pool.map(_task, [("hist", h) for h in hists], chunksize=1)
    fresh_of = dict(zip(mgkeys.keys(), fresh_list))
    # model prediction of the language after every step and of which resources change
    model = core.run_driver([{"op": "ghist", "ops": [m for op in h for m in model_ops(op)]} for h in hists], ctx.driver)
    pristine = _G["pristine"]
    ps = probes()
    kinds = {}
    for h, res, m in zip(hists, results, model):
        if "driver_error" in m:
            raise core.Infra("driver: " + m["driver_error"])
        ctx.cov["traces_validated_against_impl"] += 1
        line = {"op": "ghist", "history": [opsig(o) for o in h]}
        ctx.count(line, {"langs": res["langs"][-3:], "probes_equal_fresh": None},
                  trivial=not any(o[0] in ("realize", "clone", "fromJSON", "toSource", "str") for o in h))
        for o in h:
            kinds[o[0]] = kinds.get(o[0], 0) + 1
        # language after each HISTORY op = after the last model op it stands for
        idx, mlangs = 0, []
        for op in h:
            idx += len(model_ops(op))
            mlangs.append(m["steps"][idx - 1]["lang"])
        if mlangs != res["langs"]:
            ctx.diff(line, {"langs": mlangs}, {"langs": res["langs"]})
        mg = mgmt_part(h)
        fr = fresh_of[core.canon(mg)]
        # model: resources change iff a management op ran (and then only the named lexicon)
        mlast = m["steps"][-1] if m["steps"] else {"lexEn": 0, "lexFr": 0, "rules": 0}
        impl_changed = {"lexEn": res["hashes"]["lexEn"] != pristine["lexEn"], "lexFr": res["hashes"]["lexFr"] != pristine["lexFr"],
                        "rules": res["hashes"]["rulesEn"] != pristine["rulesEn"] or res["hashes"]["rulesFr"] != pristine["rulesFr"]}
        model_changed = {"lexEn": mlast["lexEn"] > 0, "lexFr": mlast["lexFr"] > 0, "rules": mlast["rules"] > 0}
        if impl_changed != model_changed:
            ctx.diff(line, {"resources_changed": model_changed}, {"resources_changed": impl_changed})
        # the direct oracle: same probes as the fresh interpreter, same resources
        bad = compare(h, res, fr)
        hh = h
        if bad is None and other_state_differs(res, fr):
            ctx.diff(line, {"other_global_state": "as in the fresh interpreter"},
                     {"other_global_state": "changed", "which": res.get("state_changed")})
            _G.setdefault("state_diff_histories", []).append(h)
        if bad is None and mlangs != res["langs"]:
            # the language changed where no explicit load stands: the prefix up to that op is a history after which an
            # expression built without load differs from the fresh interpreter's
            i = next(i for i, (a, b) in enumerate(zip(mlangs, res["langs"])) if a != b)
            bad = differs(h[:i + 1], {})
            hh = h[:i + 1]
        if bad is not None and len(ctx.failures) < 6:
            small = shrink(hh, {}, bad["what"])
            d = differs(small, {}) or bad
            if d["what"] == "probe":
                sig = "history-dependence:%s|probe:%s" % (",".join(opsig(o) for o in small), d["probe"][1].split("(")[0])
            elif d["what"] in ("inline", "noload"):
                sig = "history-dependence:%s|%s" % (",".join(opsig(o) for o in small), d["what"])
            else:
                sig = "resource-mutated:%s%s|%s" % (d["resource"], (":" + ",".join(d["state_changed"])) if d.get("state_changed") else "",
                                                    ",".join(opsig(o) for o in small))
            ctx.fail(sig, {"history": small, "probe_lang_src": d.get("probe")}, d)
        elif bad is not None:
            ctx.fail("unshrunk:" + bad["what"], {"history": hh}, bad)
    ctx.notes["histories"] = len(hists)
    ctx.notes["probes_per_history"] = len(ps)
    ctx.notes["op_distribution"] = kinds
    ctx.cov["evaluations"] = ctx.cov["evaluations"]
    ctx.notes["probe_realizations"] = len(hists) * len(ps)


def big_probe_history(hist):
    """child: the history, then EVERY corpus expression as a probe (explicit load before each)"""
    for op in hist:
        exec_op(op)
    out = []
    for e in _G["corpus"]:
        do_load(e["lang"])
        with Quiet() as q:
            try:
                txt = ev(e["src"]).realize()
            except Exception as ex:  # noqa
                txt = "EXC:" + type(ex).__name__
        out.append([txt, q.nwarn()])
    return {"big": out, "state": state_fingerprint()[0]}


def fork_call(fn, arg):
    r, w = os.pipe()
    pid = os.fork()
    if pid == 0:
        os.close(r)
        try:
            data = json.dumps(fn(arg)).encode()
        except BaseException as e:  # noqa
            data = json.dumps({"child_error": repr(e)}).encode()
        with os.fdopen(w, "wb") as f:
            f.write(data)
        os._exit(0)
    os.close(w)
    with os.fdopen(r, "rb") as f:
        data = f.read()
    os.waitpid(pid, 0)
    return json.loads(data.decode())


def search(ctx):
    run(ctx, deep=True)
    # histories that leave OTHER global state changed: look for an expression whose text shows it (the whole corpus as probes)
    hs = sorted(_G.get("state_diff_histories", []), key=len)[:3]
    if not hs:
        return
    fresh = {}
    for h in hs:
        mg = mgmt_part(h)
        key = core.canon(mg)
        if key not in fresh:
            fresh[key] = fork_call(big_probe_history, mg)
        # shortest prefix-free shrink that keeps the state difference
        cur = list(h)
        budget = 40
        i = 0
        while i < len(cur) and budget > 0:
            cand = cur[:i] + cur[i + 1:]
            budget -= 1
            if core.canon(mgmt_part(cand)) == key and fork_call(big_probe_history, cand).get("state") != fresh[key].get("state"):
                cur = cand
            else:
                i += 1
        res = fork_call(big_probe_history, cur)
        if "child_error" in res or "child_error" in fresh[key]:
            continue
        for e, a, b in zip(_G["corpus"], res["big"], fresh[key]["big"]):
            if a != b:
                ctx.fail("history-dependence:%s|corpus-probe:%s" % (",".join(opsig(o) for o in cur), e["src"].split("(")[0]),
                         {"history": cur, "probe_lang_src": [e["lang"], e["src"]]},
                         {"what": "probe", "probe": [e["lang"], e["src"]], "after_history": a, "fresh": b,
                          "note": "found by realizing the whole corpus after a history that leaves other global state changed"})
                break


def replay(path):
    _init_parent()
    d = json.load(open(path))
    h = d["input"]["history"]
    print(json.dumps(differs(h, {}), ensure_ascii=False, indent=1))
    return 0
