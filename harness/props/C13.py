"""C13 — clones and separate expressions are independent; arguments are not captured.

Lean side: the store model of C11 (Model/Heap*.lean) with clone and caller-owned cells; Props/C13.lean.
Direct oracle on the implementation (the property itself):
  * a clone taken before realization realizes to the same text;
  * for every interleaving of operations on an expression and its clone (options on any node, add of a child,
    typ, realize), each copy ends with the text AND the structural snapshot it has when the same operations are
    applied to it alone; after every single operation the OTHER copy's snapshot is unchanged;
  * the same for two separately built expressions;
  * dicts and lists passed as arguments (typ dict, dOpt dict, tag attributes, element lists given to the
    constructor or to add) are unchanged by the library, and mutating them afterwards does not change the
    expression (not captured).
"""
import copy
import io
import json
import multiprocessing
import os
import sys

from harness import core
from harness.impl import corpus, exprgen

META = {
    "driver": "drv_tree",
    "ops": "clone-hist",
    "translators": ["typconsts"],
    "technique": "Lean 4 proof on a store model (clone isomorphic and disjoint, frame of every operation, no capture of caller "
                 "cells, interleaving independence by induction) + interleaving oracle with structural snapshots on the real objects",
    "level_text": "Kernel-checked on the store model of C11 extended with clone and caller-owned cells: clone yields a region "
                  "isomorphic to and disjoint from the original; every modelled operation writes only inside the closure of its "
                  "receiver; caller cells are neither written nor referenced afterwards; hence any interleaving of operations on "
                  "two disjoint expressions leaves each as it would be alone (induction over the interleaved history). Tie: "
                  "interleavings executed on the real objects with deep structural snapshots of the other copy after every step.",
    "level_note": "PARTIAL: realization itself is not modelled on the store; that realize() writes only inside the closure of its "
                  "receiver (A_realize) is an assumption monitored on every run by snapshotting the other copy and the caller's "
                  "objects before and after.",
    "rule": "expressions from the repository's tests and from the grammar generator (both notations, both languages); 3..14 "
            "operations (feature/format options on a random node, typ, add with/without position, realize) interleaved at random "
            "between a copy and its clone or between two separately built copies; argument-object scenarios for typ/dOpt/tag/"
            "element lists. non-trivial = an interleaving in which both copies were operated on and the final texts differ from "
            "the unmodified expression's text",
    "assumptions": ["A_realize: realize() writes only inside the closure of its receiver and fresh cells"],
    "trusted": [],
}

_NS = {}


def ns():
    if not _NS:
        _NS.update(corpus.namespace())
    return _NS


class Quiet:
    def __enter__(self):
        self.old, self.oldout = sys.stderr, sys.stdout
        sys.stderr = self.buf = io.StringIO()
        sys.stdout = io.StringIO()
        return self

    def __exit__(self, *a):
        sys.stderr, sys.stdout = self.old, self.oldout

    def nwarn(self):
        return len([l for l in self.buf.getvalue().split("\n") if l.strip()])


# --------------------------------------------------------------------------------------------- structure access

def kids(node):
    from pyrealb import Phrase, Dependent
    if isinstance(node, Phrase):
        return list(node.elements)
    if isinstance(node, Dependent):
        return [node.terminal] + list(node.dependents)
    return []


def walk(node, path=()):
    yield path, node
    for i, k in enumerate(kids(node)):
        yield from walk(k, path + (i,))


def at(node, path):
    for i in path:
        node = kids(node)[i]
    return node


def canon_val(v):
    import datetime
    from pyrealb import Constituent
    if isinstance(v, dict):
        return {str(k): canon_val(x) for k, x in sorted(v.items(), key=lambda kv: str(kv[0])) if k not in ("pengNO", "tauxNO")}
    if isinstance(v, (list, tuple)):
        return [canon_val(x) for x in v]
    if isinstance(v, Constituent):
        return "<%s>" % v.constType
    if isinstance(v, (datetime.datetime, datetime.date)):
        return str(v)
    if isinstance(v, (str, int, float, bool)) or v is None:
        return v
    return type(v).__name__


def snapshot(root):
    """structure + option state + shared-record contents and their sharing partition (ids numbered by first visit)"""
    ids = {}
    out = []
    from pyrealb import Constituent
    where = {id(n): list(path) for path, n in walk(root)}
    for path, n in walk(root):
        rec = {"p": list(path), "k": n.constType, "props": canon_val(n.props), "real": getattr(n, "realization", None)}
        # every other attribute that refers to a constituent (cod, subject, pronoun, parentConst …): WHERE it points —
        # a path inside this expression, or OUTSIDE (a clone must never point into the original)
        refs = {}
        for a, v in vars(n).items():
            if a in ("elements", "dependents", "terminal", "elementsSource", "props", "peng", "taux"):
                continue
            if isinstance(v, Constituent):
                refs[a] = where.get(id(v), "OUTSIDE" if a != "parentConst" or path else "ROOT-PARENT")
        if refs:
            rec["refs"] = refs
        if hasattr(n, "lemma"):
            rec["lemma"] = canon_val(n.lemma)
        for a in ("peng", "taux"):
            if hasattr(n, a) and getattr(n, a) is not None and isinstance(getattr(n, a), dict):
                o = getattr(n, a)
                rec[a] = [ids.setdefault(id(o), len(ids)), canon_val(o)]
        out.append(rec)
    return core.canon(out)


# --------------------------------------------------------------------------------------------- operations

def ops_for_kind(k, lang):
    """the warning-free option vocabulary of a node kind: [(method, args-source)]"""
    w = {"en": {"A": "big", "Adv": "now", "N": "dog", "D": "the"}, "fr": {"A": "grand", "Adv": "bien", "N": "chien", "D": "le"}}[lang]
    L = ',"%s"' % lang
    opts = []
    if k in ("N", "NP"):
        opts += [("n", '"p"'), ("n", '"s"')]
    if k in ("N", "A", "D", "Pro", "NP") and lang == "fr":
        opts += [("g", '"f"'), ("g", '"m"')]
    if k in ("V", "VP", "S", "root"):
        opts += [("t", '"ps"'), ("t", '"f"'), ("t", '"p"')]
    if k in ("Pro", "D", "V"):
        opts += [("pe", "2"), ("pe", "1"), ("n", '"p"')]
    if k == "A":
        opts += [("f", '"co"')]
    if k in ("S", "SP", "VP", "root"):
        opts += [("typ", '{"neg":True}'), ("typ", '{"pas":True}'), ("typ", '{"int":"yon"}'), ("typ", '{"perf":True,"neg":False}'),
                 ("typ", '{"exc":True}')]
    if k in ("NP",):
        opts += [("add", 'A("%s"%s)' % (w["A"], L)), ("add", 'A("%s"%s),0' % (w["A"], L))]
    if k in ("S", "VP"):
        opts += [("add", 'Adv("%s"%s)' % (w["Adv"], L)), ("add", 'Adv("%s"%s),1' % (w["Adv"], L))]
    if k in ("root", "subj", "comp"):
        opts += [("add", 'mod(Adv("%s"%s))' % (w["Adv"], L))]
    if k == "NO":
        opts += [("dOpt", '{"nat":False}'), ("dOpt", '{"nat":True}'), ("nat", "False"), ("nat", "True"), ("dOpt", '{"ord":True}'),
                 ("dOpt", '{"mprecision":3}'), ("dOpt", '{"raw":True}'), ("dOpt", '{"rom":True}')]
    if k == "DT":
        opts += [("dOpt", '{"year":False}'), ("dOpt", '{"nat":False}'), ("nat", "False"), ("dOpt", '{"det":False}'),
                 ("dOpt", '{"hour":False,"minute":False,"second":False}'), ("dOpt", '{"rtime":"2024-03-01T00:00:00"}')]
    opts += [("a", '","'), ("b", '"("'), ("tag", '"b"'), ("tag", '"a",{"href":"u"}'), ("en", '"["'), ("cap", "False"), ("lier", "True")]
    return opts


def candidate_ops(rng, root, lang):
    """one random warning-free operation applicable to a random node: (path, method, args-source)"""
    nodes = list(walk(root))
    path, n = rng.choice(nodes)
    m, a = rng.choice(ops_for_kind(n.constType, lang))
    return [list(path), m, a]


# expressions holding every kind of terminal whose constructor sets options itself (numbers written in letters or digits,
# ordinals, dates): separately built copies must not share the option records the constructor installs
TWIN_ENTRIES = [
    ("fr", 'S(NP(NO("trois"),N("chien")),VP(V("courir")))'), ("fr", 'NP(NO("quatre"),N("oiseau"))'), ("fr", 'NP(D("le"),NO("deuxième"),N("essai"))'),
    ("fr", 'NP(NO(3),N("chien"))'), ("fr", 'NP(NO(1234.5),N("euro"))'), ("fr", 'NP(D("le"),NO("2"),N("chat"))'),
    ("en", 'S(NP(NO("three"),N("dog")),VP(V("run")))'), ("en", 'NP(D("the"),NO("third"),N("attempt"))'), ("en", 'NP(NO(2),N("cat"))'),
    ("en", 'NP(NO("twenty-one"),N("day"))'), ("en", 'NP(NO(1234.5),N("dollar"))'),
    ("en", 'S(NP(D("the"),N("meeting")),VP(V("be"),DT("2024-02-29T13:05:09")))'), ("fr", 'S(NP(D("le"),N("réunion")),VP(V("être"),DT("2024-02-29T13:05:09")))'),
    ("en", 'root(V("run"),subj(N("dog"),det(NO("three"))))'), ("fr", 'root(V("courir"),subj(N("chien"),det(NO("trois"))))'),
    ("en", 'S(Pro("I"),VP(V("see"),NP(D("a"),A("big"),N("cat"))))'), ("fr", 'S(Pro("je"),VP(V("voir"),NP(D("un"),A("grand"),N("chat"))))'),
    ("en", 'S(CP(C("and"),NP(D("the"),N("cat")),NP(D("the"),N("dog"))),VP(V("sleep")))'), ("fr", 'S(CP(C("et"),NP(D("le"),N("chat")),NP(D("le"),N("chien"))),VP(V("dormir")))'),
    ("en", 'Q("hello")'), ("fr", 'Adv("bien")'), ("en", 'P("of")'), ("fr", 'C("mais")'),
    # coordinations of three members (the list commas are installed on the members at realization time)
    ("en", 'S(CP(C("and"),NP(D("the"),N("cat")),NP(D("the"),N("dog")),NP(D("the"),N("bird"))),VP(V("sleep")))'),
    ("fr", 'S(CP(C("et"),NP(D("le"),N("chat")),NP(D("le"),N("chien")),NP(D("le"),N("oiseau"))),VP(V("dormir")))'),
    ("en", 'root(V("sleep"),coord(C("and"),subj(N("cat"),det(D("the"))),subj(N("dog"),det(D("the"))),subj(N("bird"),det(D("the")))))'),
    ("fr", 'CP(NP(D("le"),N("chat")),NP(D("le"),N("chien")),NP(D("le"),N("oiseau")))'),
]


NESTED_ENTRIES = [
    ("fr", 'S(Pro("je").pe(2),VP(V("laver"),NP(D("mon").pe(2),N("voiture"))))'),
    ("fr", 'S(NP(D("le"),N("chat")),VP(V("manger"),NP(D("un"),N("souris")),PP(P("dans"),NP(D("le"),N("jardin")))))'),
    ("en", 'S(Pro("I").pe(2),VP(V("wash"),NP(D("my").pe(2),N("car"))))'),
    ("en", 'S(NP(D("the"),N("cat")),VP(V("eat"),NP(D("a"),N("mouse"))))'),
    ("fr", 'root(V("laver"),subj(Pro("je").pe(2)),comp(N("voiture"),det(D("mon").pe(2))))'),
    ("en", 'root(V("eat"),subj(N("cat"),det(D("the"))),comp(N("mouse"),det(D("a"))))'),
    ("fr", 'S(NP(D("le"),N("fille")),VP(V("être"),AP(Adv("très"),A("beau"))))'),
]
ROOT_OPS = [("typ", '{"refl":True}'), ("typ", '{"maje":True}'), ("typ", '{"neg":True}'), ("typ", '{"pas":True}'), ("typ", '{"int":"yon"}'),
            ("t", '"f"'), ("t", '"pc"'), ("n", '"p"'), ("a", '"!"'), ("add", 'Q("zz")')]


def run_nested_clone_scenarios():
    """the clone of a constituent NESTED in a larger expression is independent of that expression: options set later on
    the original sentence (or on any ancestor of the cloned node) change neither the state nor the text of the clone, and
    options set on the clone leave the original as it was"""
    fails = []
    n = 0
    for lang, src in NESTED_ENTRIES:
        with Quiet():
            try:
                ref = build(src, lang)
                paths = [list(p) for p, nd in walk(ref) if len(p) >= 1 and not hasattr(nd, "lemma")]
            except Exception:  # noqa
                continue
        for path in paths:
            with Quiet():
                try:
                    x2 = build(src, lang)
                    c2 = at(x2, path).clone()
                    ref_snap = snapshot(c2)
                    ref_text = c2.realize()
                    orig_text = build(src, lang).realize()
                except Exception:  # noqa
                    continue
            anc = [path[:k] for k in range(len(path))]      # the root and every proper ancestor
            for apath in anc:
                for m, a in ROOT_OPS:
                    with Quiet():
                        try:
                            x = build(src, lang)
                            c = at(x, path).clone()
                            node = at(x, apath)
                            if m == "typ" and node.constType not in ("S", "SP", "VP", "root", "subj", "comp", "mod", "det", "coord"):
                                continue
                            apply_op(x, [apath, m, a])
                            n += 1
                            cs = snapshot(c)
                            ct = c.realize()
                        except Exception:  # noqa
                            continue
                    inp = {"src": src, "lang": lang, "cloned_node": path, "then_on_original_at": apath, "op": [m, a]}
                    if cs != ref_snap:
                        fails.append(("nested-clone:option-on-the-original-changes-the-clone:%s" % m, inp, {"field": snap_diff(cs, ref_snap)}))
                    elif ct != ref_text:
                        fails.append(("nested-clone:text-of-the-clone-depends-on-later-options-of-the-original:%s" % m, inp, {"clone": ct, "clone_taken_alone": ref_text}))
            # the other direction: options on the clone, the original keeps its text
            for m, a in ops_for_kind(at(ref, path).constType, lang)[:6]:
                with Quiet():
                    try:
                        x = build(src, lang)
                        c = at(x, path).clone()
                        apply_op(c, [[], m, a])
                        c.realize()
                        n += 1
                        xt = x.realize()
                    except Exception:  # noqa
                        continue
                if xt != orig_text:
                    fails.append(("nested-clone:option-on-the-clone-changes-the-original:%s" % m,
                                  {"src": src, "lang": lang, "cloned_node": path, "op_on_clone": [m, a]}, {"original": xt, "alone": orig_text}))
    return n, fails


def run_twin_scenarios():
    """exhaustive over TWIN_ENTRIES x every node x every option of the node's vocabulary: build two separate copies and a
    third one LATER, apply the option to the first: the second and the third keep the snapshot and the text of a copy built
    alone in a fresh state"""
    fails = []
    n = 0
    for lang, src in TWIN_ENTRIES:
        with Quiet():
            try:
                ref = build(src, lang)
                ref_snap0 = snapshot(ref)
                ref_text = ref.clone().realize()
                paths = [(list(p), nd.constType) for p, nd in walk(ref)]
            except Exception:  # noqa
                continue
        prev = None
        for path, k in paths:
            for m, a in ops_for_kind(k, lang):
              for realize_first in (False, True):
                with Quiet() as qz:
                    try:
                        x, y = build(src, lang), build(src, lang)
                        if realize_first:       # what realization installs on x (list commas …) must stay x's own
                            x.realize()
                        if snapshot(y) != ref_snap0:
                            fails.append(("twin:construction-depends-on-earlier-expression:" + k, {"src": src, "lang": lang, "earlier": prev},
                                          {"field": snap_diff(snapshot(y), ref_snap0), "history": "the same source was built before and `earlier` applied to that copy"}))
                            continue
                        apply_op(x, [path, m, a])
                        prev = {"path": path, "op": [m, a]}
                        x.realize()
                        n += 1
                        after = snapshot(y)
                        z = build(src, lang)                       # built after the option was set on x
                        zs = snapshot(z)
                        ty, tz = y.realize(), z.realize()
                    except Exception:  # noqa
                        continue
                inp = {"src": src, "lang": lang, "path": path, "op": [m, a], "first_copy_realized_before_the_option": realize_first}
                if after != ref_snap0:
                    fails.append(("twin:option-on-one-expression-changes-a-separate-one:%s.%s" % (k, m), inp, {"field": snap_diff(after, ref_snap0)}))
                elif zs != ref_snap0:
                    fails.append(("twin:option-on-one-expression-changes-later-expressions:%s.%s" % (k, m), inp, {"field": snap_diff(zs, ref_snap0)}))
                elif ty != ref_text or tz != ref_text:
                    fails.append(("twin:text-of-separate-expression-changed:%s.%s" % (k, m), inp, {"alone": ref_text, "second": ty, "later": tz}))
    return n, fails


def apply_op(root, op):
    path, m, a = op
    if m == "realize":
        return root.realize()
    node = at(root, path)
    args = eval("(%s,)" % a, dict(ns()))
    getattr(node, m)(*args)
    return None


def build(src, lang):
    import pyrealb
    (pyrealb.loadEn if lang == "en" else pyrealb.loadFr)()
    return eval(src, dict(ns()))


def run_alone(src, lang, ops):
    """reference: a fresh copy with only its own operations; returns (final text, snapshot) or None if it warns/raises"""
    with Quiet() as qz:
        try:
            e = build(src, lang)
            for op in ops:
                apply_op(e, op)
            t = e.realize()
            s = snapshot(e)
        except Exception as ex:  # noqa
            return ("EXC:" + type(ex).__name__, None, 1)
    return (t, s, qz.nwarn())


def scenario(rng, entry, mode):
    """mode: 'clone' (X and X.clone()) or 'pair' (two separate builds).  returns a result dict"""
    src, lang = entry["src"], entry["lang"]
    with Quiet() as qz:
        try:
            x = build(src, lang)
            base_warn = qz.nwarn()
            y = x.clone() if mode == "clone" else build(src, lang)
        except Exception as ex:  # noqa
            return None
    if base_warn:
        return None
    n = rng.randint(3, 14)
    seq = []
    ops = {"x": [], "y": []}
    copies = {"x": x, "y": y}
    leak = None
    with Quiet():
        for i in range(n):
            who = rng.choice("xy")
            other = "y" if who == "x" else "x"
            op = [[], "realize", ""] if rng.random() < 0.15 else candidate_ops(rng, copies[who], lang)
            before = snapshot(copies[other])
            try:
                apply_op(copies[who], op)
            except Exception as ex:  # noqa  (C07's business) : drop this scenario
                return None
            seq.append([who] + op)
            ops[who].append(op)
            after = snapshot(copies[other])
            if before != after and leak is None:
                leak = {"step": i, "op": [who] + op, "other": other}
        try:
            tx, ty = x.realize(), y.realize()
            sx, sy = snapshot(x), snapshot(y)
        except Exception:  # noqa
            return None
    rx = run_alone(src, lang, ops["x"])
    ry = run_alone(src, lang, ops["y"])
    if rx[0].startswith("EXC") or ry[0].startswith("EXC"):
        return None
    res = {"src": src, "lang": lang, "mode": mode, "seq": seq, "leak": leak, "text": {"x": tx, "y": ty},
           "alone": {"x": rx[0], "y": ry[0]}, "snap_equal": {"x": sx == rx[1], "y": sy == ry[1]},
           "snap_diff": {"x": snap_diff(sx, rx[1]), "y": snap_diff(sy, ry[1])},
           "both": bool(ops["x"]) and bool(ops["y"])}
    return res


def snap_diff(a, b):
    """which field of which node differs between two snapshots: (field, node kind, got, expected)"""
    if a == b or a is None or b is None:
        return None
    A, B = json.loads(a), json.loads(b)
    if len(A) != len(B):
        return ["node-count", "", len(A), len(B)]
    for x, y in zip(A, B):
        for k in sorted(set(x) | set(y)):
            if x.get(k) != y.get(k):
                if isinstance(x.get(k), dict) and isinstance(y.get(k), dict):
                    for kk in sorted(set(x[k]) | set(y[k])):
                        if x[k].get(kk) != y[k].get(kk):
                            return ["%s.%s" % (k, kk), x.get("k"), x[k].get(kk), y[k].get(kk)]
                return [k, x.get("k"), x.get(k), y.get(k)]
    return ["?", "", None, None]


def clone_same_text(entry):
    with Quiet() as qz:
        try:
            a = build(entry["src"], entry["lang"])
            if qz.nwarn():
                return None
            c = a.clone()
            tc = c.realize()
            ta = a.realize()
            s_same = None
        except Exception:  # noqa
            return None
    return {"src": entry["src"], "lang": entry["lang"], "orig": ta, "clone": tc}


# --------------------------------------------------------------------------------------------- argument objects

def arg_scenarios():
    """each: (name, lang, code); the code defines `arg` (caller object), builds e1 (and e2), and the checks run after"""
    S_en = 'S(NP(D("the"),N("cat")),VP(V("eat"),NP(D("a"),N("mouse"))))'
    S_fr = 'S(NP(D("le"),N("chat")),VP(V("manger"),NP(D("un"),N("souris"))))'
    R_en = 'root(V("eat"),subj(N("cat"),det(D("the"))),comp(N("mouse"),det(D("a"))))'
    out = []
    for lang, S in (("en", S_en), ("fr", S_fr), ("en", R_en)):
        for d in ('{"neg":True}', '{"pas":True,"int":"yon"}', '{"neg":True,"zzz":1}', '{"int":"zzz","perf":True}', '{"mod":"poss"}'):
            out.append(("typ-dict", lang, S, "typ", d, ['{"pas":True}', '{"neg":False}', '{"int":"why"}']))
    for lang, S in (("fr", S_fr), ("en", S_en), ("fr", 'root(V("manger"),subj(N("chat"),det(D("le"))),comp(N("souris"),det(D("un"))))')):
        # values of the wrong TYPE for a flag (validated by language-specific hooks)
        for d in ('{"neg":1}', '{"neg":0,"pas":True}', '{"neg":None}', '{"neg":3.5,"int":"yon"}', '{"neg":"jamais"}', '{"mod":1}', '{"int":None,"neg":True}'):
            out.append(("typ-dict", lang, S, "typ", d, ['{"pas":True}']))
    for lang in ("en", "fr"):
        out.append(("dOpt-dict", lang, 'DT("2024-02-29T13:05:09")', "dOpt", '{"year":False,"second":False}', ['{"month":False}', '{"hour":False}']))
        out.append(("dOpt-dict", lang, "NO(1234.5)", "dOpt", '{"mprecision":1}', ['{"raw":True}']))
        w = {"en": "cat", "fr": "chat"}[lang]
        out.append(("tag-attrs", lang, 'N("%s")' % w, "tag", '"a",{"href":"u","class":"x"}', []))
    return out


def run_arg_scenario(sc):
    name, lang, src, meth, argsrc, later = sc
    fails = []
    with Quiet():
        try:
            import pyrealb
            (pyrealb.loadEn if lang == "en" else pyrealb.loadFr)()
            args = list(eval("(%s,)" % argsrc, dict(ns())))
            caller = args[-1]                       # the dict the caller owns
            snap0 = copy.deepcopy(caller)
            e1 = eval(src, dict(ns()))
            getattr(e1, meth)(*args)
            if caller != snap0:
                fails.append(("argument-modified-by-call", {"before": canon_val(snap0), "after": canon_val(caller)}))
            e2 = eval(src, dict(ns()))
            getattr(e2, meth)(*args)                # second expression given the SAME object
            for l in later:                         # further calls on e1 must not reach e2 or the caller's dict
                getattr(e1, meth)(*eval("(%s,)" % l, dict(ns())))
            if caller != snap0 and not fails:
                fails.append(("argument-modified-by-later-call", {"before": canon_val(snap0), "after": canon_val(caller)}))
            # reference for e2: same construction with a private copy of the argument
            e2ref = eval(src, dict(ns()))
            getattr(e2ref, meth)(*(args[:-1] + [copy.deepcopy(snap0)]))
            t2, t2ref = e2.clone().realize(), e2ref.clone().realize()
            if t2 != t2ref:
                fails.append(("shared-argument-links-two-expressions", {"got": t2, "alone": t2ref}))
            # not captured: the caller mutates its object afterwards
            e3 = eval(src, dict(ns()))
            a3 = copy.deepcopy(snap0)
            getattr(e3, meth)(*(args[:-1] + [a3]))
            tref = e3.clone().realize()
            if isinstance(a3, dict):
                for k in list(a3.keys()):
                    a3[k] = "MUTATED" if isinstance(a3[k], str) else (not a3[k] if isinstance(a3[k], bool) else a3[k])
                a3["neg" if meth == "typ" else "zz"] = True
            t3 = e3.clone().realize()
            if t3 != tref:
                fails.append(("argument-captured", {"before_caller_mutation": tref, "after": t3}))
        except Exception as ex:  # noqa
            fails.append(("exception:" + type(ex).__name__, {}))
    return fails


def run_output_scenarios(rng, entries):
    """objects RETURNED to the caller (toJSON) must not be aliased to the expression: later operations on the expression
    (options, realization) must not change a JSON taken earlier"""
    fails = []
    n = 0
    for en in entries:
        with Quiet():
            try:
                e = build(en["src"], en["lang"])
                j = e.toJSON()
                j0 = copy.deepcopy(j)
                for _ in range(rng.randint(0, 3)):
                    apply_op(e, candidate_ops(rng, e, en["lang"]))
                j1 = copy.deepcopy(j)
                e.realize()
                n += 1
                if j1 != j0:
                    fails.append(("json-output-changed-by-later-option", {"src": en["src"], "lang": en["lang"]}))
                elif j != j0:
                    fails.append(("json-output-changed-by-realization", {"src": en["src"], "lang": en["lang"]}))
            except Exception:  # noqa
                continue
    return n, fails


def run_list_scenarios():
    """element lists given to constructors / add must not be modified"""
    fails = []
    import pyrealb
    with Quiet():
        for lang, mk in (("en", lambda: [pyrealb.D("the"), pyrealb.A("big"), pyrealb.N("cat")]),
                         ("fr", lambda: [pyrealb.D("le"), pyrealb.A("grand"), pyrealb.N("chat")])):
            (pyrealb.loadEn if lang == "en" else pyrealb.loadFr)()
            try:
                lst = mk()
                ids = [id(x) for x in lst]
                pyrealb.NP(lst)
                if [id(x) for x in lst] != ids:
                    fails.append(("list-argument-modified:constructor", {"lang": lang}))
                for pos in (None, 0, 1):
                    lst = [pyrealb.A("big" if lang == "en" else "grand"), pyrealb.A("old" if lang == "en" else "vieux")]
                    ids = [id(x) for x in lst]
                    np_ = pyrealb.NP(pyrealb.D("the" if lang == "en" else "le"), pyrealb.N("cat" if lang == "en" else "chat"))
                    if pos is None:
                        np_.add(lst)
                    else:
                        np_.add(lst, pos)
                    if [id(x) for x in lst] != ids:
                        fails.append(("list-argument-modified:add(list,%s)" % pos, {"lang": lang}))
                lst = [pyrealb.subj(pyrealb.N("cat" if lang == "en" else "chat")), pyrealb.comp(pyrealb.N("dog" if lang == "en" else "chien"))]
                ids = [id(x) for x in lst]
                pyrealb.root(pyrealb.V("see" if lang == "en" else "voir"), lst)
                if [id(x) for x in lst] != ids:
                    fails.append(("list-argument-modified:root(list)", {"lang": lang}))
            except Exception as ex:  # noqa
                fails.append(("exception:list:" + type(ex).__name__, {"lang": lang}))
    return fails


# --------------------------------------------------------------------------------------------- driver

def work(args):
    import random
    seed, entries = args
    core.ensure_repo_on_path()
    rng = random.Random(seed)
    out = []
    for en in entries:
        c = clone_same_text(en)
        if c:
            out.append(("clonetext", c))
        for mode in ("clone", "pair"):
            r = scenario(rng, en, mode)
            if r:
                out.append((mode, r))
    return out


def opsig(o):
    return "%s.%s(%s)" % (o[0], o[2], o[3].split("(")[0][:12] if o[2] == "add" else o[3][:16])


def run(ctx, deep=False):
    core.ensure_repo_on_path()
    import pyrealb  # noqa
    rng = ctx.rng
    n = {"quick": 900, "thorough": 40000}[ctx.tier] * (2 if deep else 1)
    c = [e for e in corpus.load() if not e["setup"]]
    rng.shuffle(c)
    ents = [{"src": e["src"], "lang": e["lang"]} for e in c[:n // 2]]
    gen = exprgen.generate(rng, n, malformed=0.0)
    ents += [{"src": g["src"], "lang": g["lang"]} for g in gen if "DT(" not in g["src"]][:n // 2]
    nproc = min(16, os.cpu_count() or 4)
    per = max(10, len(ents) // (nproc * 3))
    tasks = [(rng.randrange(10 ** 9), ents[i:i + per]) for i in range(0, len(ents), per)]
    with multiprocessing.get_context("fork").Pool(nproc) as pool:
        results = pool.map(work, tasks, chunksize=1)
    stats = {"clone": 0, "interleavings": 0, "both_sides": 0, "ops": 0}
    for rs in results:
        for kind, r in rs:
            if kind == "clonetext":
                stats["clone"] += 1
                ctx.count({"check": "clone-same-text", "src": r["src"]}, r["clone"], trivial=True)
                if r["orig"] != r["clone"]:
                    ctx.fail("clone-text-differs:" + r["src"].split("(")[0], {"src": r["src"], "lang": r["lang"]}, r)
                continue
            stats["interleavings"] += 1
            stats["both_sides"] += 1 if r["both"] else 0
            stats["ops"] += len(r["seq"])
            ctx.count({"mode": kind, "src": r["src"], "seq": r["seq"]}, r["text"], trivial=not r["both"])
            inp = {"src": r["src"], "lang": r["lang"], "mode": kind, "seq": r["seq"]}
            if r["leak"]:
                ctx.fail("%s:operation-changes-other-copy:%s" % (kind, opsig(r["leak"]["op"])), inp, r["leak"])
            for w in "xy":
                if r["text"][w] != r["alone"][w]:
                    ctx.fail("%s:copy-differs-from-alone:%s" % (kind, ",".join(sorted(set(o[2] for o in r["seq"])))), inp,
                             {"copy": w, "interleaved": r["text"][w], "alone": r["alone"][w]})
                elif not r["snap_equal"][w]:
                    d = r["snap_diff"][w] or ["?", "", None, None]
                    ctx.fail("%s:copy-state-differs-from-alone:%s@%s" % (kind, d[0], d[1]), inp,
                             {"copy": w, "field": d[0], "node": d[1], "interleaved": d[2], "alone": d[3]})
    for sc in arg_scenarios():
        fs = run_arg_scenario(sc)
        ctx.count({"arg-scenario": sc[0], "lang": sc[1], "src": sc[2], "arg": sc[4]}, [f[0] for f in fs], trivial=False)
        for name, detail in fs:
            ctx.fail("%s:%s:%s" % (sc[0], name, sc[3]), {"scenario": sc[0], "lang": sc[1], "src": sc[2], "method": sc[3], "arg": sc[4]}, detail)
    nout, ofails = run_output_scenarios(rng, ents[:400] + [{"src": 'S(NP(D("the"),N("cat")),VP(V("eat"),NP(D("a"),N("mouse")))).typ({"int":"yon"})', "lang": "en"},
                                                           {"src": 'S(NP(D("le"),N("chat")),VP(V("manger"),NP(D("un"),N("souris")))).typ({"exc":True,"int":"yon"})', "lang": "fr"}])
    ctx.notes["json_output_scenarios"] = nout
    for name, detail in ofails:
        ctx.count({"output-scenario": name, "src": detail["src"]}, name, trivial=False)
        ctx.fail(name, detail, {})
    ntw, tfails = run_twin_scenarios()
    ctx.notes["twin_scenarios"] = ntw
    for name, inp, detail in tfails:
        ctx.count({"twin-scenario": name, "src": inp["src"], "op": inp.get("op")}, name, trivial=False)
        ctx.fail(name, inp, detail)
    nnc, nfails = run_nested_clone_scenarios()
    ctx.notes["nested_clone_scenarios"] = nnc
    for name, inp, detail in nfails:
        ctx.count({"nested-clone-scenario": name, "src": inp["src"], "op": inp.get("op") or inp.get("op_on_clone")}, name, trivial=False)
        ctx.fail(name, inp, detail)
    for name, detail in run_list_scenarios():
        ctx.count({"list-scenario": name}, detail, trivial=False)
        ctx.fail(name, {"scenario": name}, detail)
    ctx.notes["stats"] = stats
    # model vs live objects: clone / interleaving histories through the store model (drv_tree, op chist)
    from harness.impl.c13lean import lean_correspondence
    lean_correspondence(ctx)


def search(ctx):
    run(ctx, deep=True)


def replay(path):
    d = json.load(open(path))
    core.ensure_repo_on_path()
    print(json.dumps(d["input"], ensure_ascii=False, indent=1))
    return 0
