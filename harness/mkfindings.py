#!/venv/bin/python
"""Merges known_findings.d/*.json into the single committed known_findings.json (run by the integrator)."""
import json, os, sys
sys.path.insert(0, os.path.dirname(os.path.dirname(os.path.abspath(__file__))))
from harness import core
k = core.load_known()
k["findings"].sort(key=lambda e: (e["property"], e["match"]))
json.dump(k, open(os.path.join(core.VERIF, "known_findings.json"), "w"), indent=1, ensure_ascii=False, sort_keys=True)
print(len(k["findings"]), "findings,", len(k["fixed"]), "fixed")
