#!/venv/bin/python
"""Runs the pinned baseline test suite on a checkout of pyrealb (default /repo) and compares with
/root/.vp/BASELINE.json: every stable_pass test must still pass.   usage: harness/baseline.py [repo_dir]"""
import json
import os
import subprocess
import sys
import tempfile
import xml.etree.ElementTree as ET

repo = os.path.abspath(sys.argv[1]) if len(sys.argv) > 1 else "/repo"
base = json.load(open("/root/.vp/BASELINE.json"))
want = set(base["stable_pass"])
with tempfile.TemporaryDirectory() as td:
    xml = os.path.join(td, "j.xml")
    env = dict(os.environ, PYTHONPATH=os.path.join(repo, "src"))
    env.pop("PYREALB_VERIF", None)
    p = subprocess.run(["/venv/bin/python", "-m", "pytest", "-q", "-p", "no:cacheprovider", "--timeout=900",
                        "--continue-on-collection-errors", "--junitxml=" + xml], cwd=repo, env=env,
                       capture_output=True, text=True)
    passed = set()
    for tc in ET.parse(xml).getroot().iter("testcase"):
        if not any(ch.tag in ("failure", "error", "skipped") for ch in tc):
            passed.add(tc.get("classname") + "::" + tc.get("name"))
missing = sorted(want - passed)
print("baseline: %d/%d stable tests pass; %d others pass" % (len(want & passed), len(want), len(passed - want)))
if missing:
    print("NO LONGER PASSING:", missing[:20])
    sys.exit(1)
