"""Common machinery of the checks (see DESIGN.md §2, §6, §7).

One run of `./check Cnn`:
  translate -> lake build (Props, Audit, driver) -> axiom/source audit -> correspondence (model driver vs the
  real pyrealb, same lines) -> direct oracle on the implementation -> verdict -> evidence.
"""
import fcntl
import hashlib
import json
import os
import random
import re
import subprocess
import sys
import time

VERIF = os.path.dirname(os.path.dirname(os.path.abspath(__file__)))
REPO = os.environ.get("PYREALB_REPO", "/repo")
LEAN = os.path.join(VERIF, "lean")
BIN = os.path.join(LEAN, ".lake", "build", "bin")
ALLOWED_AXIOMS = {"propext", "Classical.choice", "Quot.sound"}
FORBIDDEN = re.compile(r"\bsorry\b|\badmit\b|^axiom |native_decide|bv_decide|implemented_by|\bunsafe |maxHeartbeats 0")

TRUSTED_BASE = [
    "Lean 4.33.0 kernel (axioms allowed: propext, Classical.choice, Quot.sound; audited by #print axioms on every run)",
    "Lean compiler/runtime for the executed driver (correspondence side)",
    "harness/translate (tables and constants lifted from /repo into Pyrealb/Gen/*.lean)",
    "harness correspondence check: generators, adapters calling the real pyrealb in-process, canonicalisation, diff",
    "hand-written models in lean/Pyrealb/Model are modelled, not verified: tied to the code only by correspondence",
]


def ensure_repo_on_path():
    src = os.path.join(REPO, "src")
    if src not in sys.path:
        sys.path.insert(0, src)


class Infra(Exception):
    """infrastructure failure (exit 2), never reported as a violation"""


def sh(cmd, cwd=None, timeout=None, input=None, env=None):
    e = dict(os.environ)
    if env:
        e.update(env)
    p = subprocess.run(cmd, cwd=cwd, input=input, capture_output=True, text=True, timeout=timeout, env=e)
    return p.returncode, p.stdout, p.stderr


# ---------------------------------------------------------------------------------------------
# Lean side
# ---------------------------------------------------------------------------------------------

def write_if_changed(path, content):
    try:
        with open(path, encoding="utf-8") as f:
            if f.read() == content:
                return False
    except FileNotFoundError:
        pass
    os.makedirs(os.path.dirname(path), exist_ok=True)
    tmp = path + ".tmp%d" % os.getpid()
    with open(tmp, "w", encoding="utf-8") as f:
        f.write(content)
    os.replace(tmp, path)
    return True


class BuildLock:
    def __enter__(self):
        self.f = open(os.path.join(LEAN, ".build.lock"), "w")
        fcntl.flock(self.f, fcntl.LOCK_EX)
        return self

    def __exit__(self, *a):
        fcntl.flock(self.f, fcntl.LOCK_UN)
        self.f.close()


def theorem_at(path, line):
    """name of the enclosing theorem/def of path:line"""
    try:
        lines = open(path, encoding="utf-8").read().split("\n")
    except OSError:
        return None
    for i in range(min(line, len(lines)) - 1, -1, -1):
        m = re.match(r"\s*(?:@\[[^\]]*\]\s*)?(?:private\s+|protected\s+)?(theorem|lemma|def|example|instance|abbrev)\s+([^\s:({\[]+)?", lines[i])
        if m:
            return (m.group(2) or "example@%d" % (i + 1))
    return None


def lake_build(targets, timeout=3000):
    """returns (ok, log, failures) ; failures = list of {file,line,theorem,msg}"""
    with BuildLock():
        rc, out, err = sh(["lake", "build"] + targets, cwd=LEAN, timeout=timeout)
    log = out + err
    failures = []
    for m in re.finditer(r"^error: ([^\s:]+\.lean):(\d+):(\d+): (.*)$", log, re.M):
        path = os.path.join(LEAN, m.group(1))
        failures.append({"file": m.group(1), "line": int(m.group(2)),
                         "theorem": theorem_at(path, int(m.group(2))), "msg": m.group(4)[:300]})
    if rc != 0 and not failures:
        failures.append({"file": None, "line": 0, "theorem": None, "msg": log[-2000:]})
    return rc == 0, log, failures


def audit_axioms(prop):
    """runs the Audit module of the property; returns {theorem: [axioms]} and the list of offending theorems"""
    path = os.path.join("Pyrealb", "Audit", prop + ".lean")
    with BuildLock():
        rc, out, err = sh(["lake", "env", "lean", path], cwd=LEAN, timeout=1200)
    txt = out + err
    res = {}
    for m in re.finditer(r"'([^']+)' depends on axioms: \[([^\]]*)\]", txt):
        res[m.group(1)] = [a.strip() for a in m.group(2).replace("\n", " ").split(",") if a.strip()]
    for m in re.finditer(r"'([^']+)' does not depend on any axioms", txt):
        res[m.group(1)] = []
    bad = [t for t, ax in res.items() if not set(ax) <= ALLOWED_AXIOMS]
    if rc != 0:
        bad.append("audit-module-failed: " + txt[-500:])
    return res, bad


def strip_comments(src):
    # remove /- ... -/ (nested not handled beyond one level) and -- comments
    out = []
    i, depth = 0, 0
    n = len(src)
    while i < n:
        if src.startswith("/-", i):
            depth += 1
            i += 2
        elif depth and src.startswith("-/", i):
            depth -= 1
            i += 2
        elif depth:
            if src[i] == "\n":
                out.append("\n")
            i += 1
        elif src.startswith("--", i):
            while i < n and src[i] != "\n":
                i += 1
        else:
            out.append(src[i])
            i += 1
    return "".join(out)


def import_closure(roots):
    """Lean source files of this project transitively imported by the given modules (e.g. Pyrealb.Props.C20)"""
    seen, todo = {}, list(roots)
    while todo:
        m = todo.pop()
        if m in seen or not m.startswith(("Pyrealb", "Drv")):
            continue
        path = os.path.join(LEAN, *m.split(".")) + ".lean"
        if not os.path.exists(path):
            continue
        seen[m] = path
        for l in open(path, encoding="utf-8"):
            mm = re.match(r"\s*(?:public\s+)?import\s+(\S+)", l)
            if mm:
                todo.append(mm.group(1))
    return seen


def audit_sources(roots=None):
    """grep for sorry/admit/axiom/native_decide/... outside comments in the Lean sources the property depends on
    (its Props and Audit modules and everything they import; the whole project when roots is None)"""
    hits = []
    if roots is None:
        paths = []
        for root, _, files in os.walk(os.path.join(LEAN, "Pyrealb")):
            paths += [os.path.join(root, fn) for fn in files if fn.endswith(".lean")]
    else:
        paths = list(import_closure(roots).values())
    for p in sorted(paths):
        src = strip_comments(open(p, encoding="utf-8").read())
        for ln, l in enumerate(src.split("\n"), 1):
            if FORBIDDEN.search(l):
                hits.append("%s:%d: %s" % (os.path.relpath(p, LEAN), ln, l.strip()[:120]))
    return hits


def run_driver(lines, exe, timeout=3000):
    """pipes protocol lines (dicts) to the compiled model driver `exe`; returns the list of answers (dicts)"""
    DRIVER = os.path.join(BIN, exe)
    if not os.path.exists(DRIVER):
        raise Infra("driver not built: " + DRIVER)
    if not lines:
        return []
    data = "\n".join(json.dumps(l, ensure_ascii=False, separators=(",", ":")) for l in lines) + "\n"
    p = subprocess.run([DRIVER], input=data.encode("utf-8"), capture_output=True, timeout=timeout)
    if p.returncode != 0:
        raise Infra("driver exited %d: %s" % (p.returncode, p.stderr.decode("utf-8", "replace")[-1000:]))
    outs = p.stdout.decode("utf-8").split("\n")
    if outs and outs[-1] == "":
        outs.pop()
    if len(outs) != len(lines):
        raise Infra("driver answered %d lines for %d requests" % (len(outs), len(lines)))
    return [json.loads(o) for o in outs]


# ---------------------------------------------------------------------------------------------
# Findings
# ---------------------------------------------------------------------------------------------

def load_known():
    """known_findings.json (committed, never written at run time).  While a property is being developed its
    entries may live in known_findings.d/Cnn.json; harness/mkfindings.py merges them into the single file."""
    res = {"findings": [], "fixed": []}
    paths = [os.path.join(VERIF, "known_findings.json")]
    d = os.path.join(VERIF, "known_findings.d")
    if os.path.isdir(d):
        paths += sorted(os.path.join(d, f) for f in os.listdir(d) if f.endswith(".json"))
    seen = set()
    for p in paths:
        try:
            j = json.load(open(p, encoding="utf-8"))
        except FileNotFoundError:
            continue
        for k in ("findings", "fixed"):
            for e in j.get(k, []):
                key = canon(e)
                if key not in seen:
                    seen.add(key)
                    res[k].append(e)
    return res


def canon(x):
    return json.dumps(x, ensure_ascii=False, sort_keys=True, separators=(",", ":"))


# ---------------------------------------------------------------------------------------------
# One run
# ---------------------------------------------------------------------------------------------

class Ctx:
    def __init__(self, prop, tier, seed):
        self.prop = prop
        self.tier = tier
        self.seed = seed
        self.rng = random.Random((seed * 1000003) ^ int(hashlib.sha256(prop.encode()).hexdigest()[:8], 16))
        self.t0 = time.time()
        self.proof_failures = []      # theorem names / build failures of this property
        self.corr_diffs = []          # {"line":…, "model":…, "impl":…}
        self.failures = []            # concrete failing inputs on the implementation: {"sig":…, "input":…, …}
        self.cov = {"evaluations": 0, "samples": [], "traces_validated_against_impl": 0}
        self.distinct = set()
        self.assumptions = []
        self.notes = {}
        self.theorems = {}
        self.exhaustive = False
        self.driver = None
        self.deep = False
        self.fail_counts = {}
        self.fail_min = {}

    # --- coverage bookkeeping
    def count(self, line, answer, trivial=False):
        self.cov["evaluations"] += 1
        if not trivial:
            self.distinct.add(hashlib.md5(canon([line, answer]).encode()).digest())
        if len(self.cov["samples"]) < 5 or (self.cov["evaluations"] % 9973 == 0 and len(self.cov["samples"]) < 12):
            self.cov["samples"].append({"line": line, "answer": answer})

    def diff(self, line, model, impl):
        if len(self.corr_diffs) < 200:
            self.corr_diffs.append({"line": line, "model": model, "impl": impl})
        else:
            self.notes["corr_diffs_truncated"] = self.notes.get("corr_diffs_truncated", 0) + 1

    def fail(self, sig, input, detail):
        """a concrete input on which the IMPLEMENTATION violates the property"""
        n = self.fail_counts.get(sig, 0)
        self.fail_counts[sig] = n + 1
        if n < 3 or (n < 50 and len(canon(input)) < self.fail_min.get(sig, 10 ** 9)):
            self.failures.append({"sig": sig, "input": input, "detail": detail})
            self.fail_min[sig] = min(self.fail_min.get(sig, 10 ** 9), len(canon(input)))

    def correspond(self, lines, impl_fn, trivial_fn=None, model_post=None):
        """runs `lines` through the model driver and through impl_fn (real code); diffs canonical answers.
        returns the list of (line, model_answer, impl_answer)"""
        model = run_driver(lines, self.driver)
        res = []
        for l, m in zip(lines, model):
            if "driver_error" in m:
                raise Infra("driver error on %s: %s" % (canon(l)[:300], m["driver_error"]))
            if model_post:
                m = model_post(l, m)
            a = impl_fn(l)
            self.cov["traces_validated_against_impl"] += 1
            self.count(l, a, trivial_fn(l, a) if trivial_fn else False)
            if canon(m) != canon(a):
                self.diff(l, m, a)
            res.append((l, m, a))
        return res


def write_replay(ctx, kind, payload):
    d = os.path.join(VERIF, "replays")
    os.makedirs(d, exist_ok=True)
    h = hashlib.md5(canon(payload).encode()).hexdigest()[:10]
    p = os.path.join(d, "%s-%s-%s.json" % (ctx.prop, kind, h))
    with open(p, "w", encoding="utf-8") as f:
        json.dump({"property": ctx.prop, "seed": ctx.seed, "tier": ctx.tier, "kind": kind, **payload}, f,
                  ensure_ascii=False, indent=1, sort_keys=True)
    return p


def main_check(prop, tier, seed, module, replay=None):
    """module: harness.props.Cnn with run(ctx) and META"""
    ctx = Ctx(prop, tier, seed)
    meta = module.META
    ctx.driver = meta["driver"]
    try:
        from harness import translate
        try:
            ctx.notes["regenerated"] = translate.run_all(only=meta.get("translators"))
        except translate.TranslateError as e:
            ctx.proof_failures.append({"theorem": "translator", "msg": str(e)[:500]})
        except Exception as e:  # noqa — a translator that chokes on a changed source is a broken tie as well
            import traceback
            ctx.proof_failures.append({"theorem": "translator", "msg": traceback.format_exc()[-800:]})
        targets = ["Pyrealb.Props." + prop, ctx.driver] + meta.get("extra_modules", [])
        ok, log, fails = lake_build(targets)
        build_ok = ok
        broken = []
        if not ok:
            # which failures concern this property?  Everything its Props module depends on.
            broken = fails
            ctx.proof_failures = [f for f in fails]
            # the driver may still be usable from a previous build only if it was rebuilt: try building it alone
            ok2, _, f2 = lake_build([ctx.driver])
            if not ok2:
                ctx.notes["driver_build_failed"] = f2[:5]
        axioms, bad_axioms = ({}, [])
        if build_ok:
            axioms, bad_axioms = audit_axioms(prop)
            for extra in meta.get("extra_audits", []):   # further Audit/<name>.lean modules of this property
                a2, b2 = audit_axioms(extra)
                axioms.update(a2)
                bad_axioms += b2
        src_hits = audit_sources(["Pyrealb.Props." + prop, "Pyrealb.Audit." + prop] + meta.get("extra_modules", [])
                                 + ["Pyrealb.Audit." + x for x in meta.get("extra_audits", [])])
        ctx.notes["lean_modules_audited"] = len(import_closure(["Pyrealb.Props." + prop, "Pyrealb.Audit." + prop] + meta.get("extra_modules", [])))
        ctx.theorems = axioms
        for b in bad_axioms:
            ctx.proof_failures.append({"theorem": b, "msg": "axiom audit"})
        for h in src_hits:
            ctx.proof_failures.append({"theorem": h, "msg": "forbidden construct in Lean source"})
        leancheck = None
        if tier == "thorough" and build_ok and not os.environ.get("VERIF_NO_LEANCHECKER"):
            with BuildLock():
                rc, out, err = sh(["lake", "env", "leanchecker", "Pyrealb.Props." + prop], cwd=LEAN, timeout=3000)
            leancheck = (rc == 0)
            if rc != 0:
                ctx.proof_failures.append({"theorem": "leanchecker", "msg": (out + err)[-500:]})
        ctx.notes["leanchecker"] = leancheck

        # correspondence + oracle (the property module); when something is broken, search deeper
        ensure_repo_on_path()
        ctx.deep = bool(ctx.proof_failures)
        def guarded(fn):
            """a translator that no longer finds its source construct, or an adapter that no longer fits the code under
            test, is a broken tie (handled like a broken proof), not an infrastructure failure"""
            import traceback
            try:
                fn(ctx)
            except (Infra, subprocess.TimeoutExpired):
                raise
            except translate.TranslateError as e:
                ctx.proof_failures.append({"theorem": "translator", "msg": str(e)[:500]})
            except Exception as e:  # noqa
                ctx.proof_failures.append({"theorem": "correspondence-harness", "msg": traceback.format_exc()[-1500:]})

        if os.path.exists(os.path.join(BIN, ctx.driver)) and not ctx.notes.get("driver_build_failed"):
            guarded(module.run)
            if ctx.corr_diffs and not ctx.failures and not ctx.deep and hasattr(module, "search"):
                ctx.deep = True
                guarded(module.search)
            elif (ctx.deep or ctx.proof_failures) and not ctx.failures and hasattr(module, "search"):
                ctx.deep = True
                guarded(module.search)
        else:
            ctx.proof_failures.append({"theorem": "driver", "msg": "model driver could not be built"})
            if hasattr(module, "search"):
                guarded(module.search)
    except Infra as e:
        print("INFRA-FAILURE: %s" % e)
        sys.exit(2)
    except subprocess.TimeoutExpired as e:
        print("INFRA-TIMEOUT: %s" % e)
        sys.exit(2)

    # ------------------------------------------------------------------ verdict
    known = load_known()
    known_sigs = {(k["property"], k["match"]): k for k in known.get("findings", [])}
    printed_known = set()
    violations = []
    by_sig = {}
    for f in ctx.failures:  # per signature keep the smallest failing input
        o = by_sig.get(f["sig"])
        if o is None or len(canon(f["input"])) < len(canon(o["input"])):
            by_sig[f["sig"]] = f
    for sig, f in by_sig.items():
        k = known_sigs.get((prop, sig))
        if k:
            if sig not in printed_known:
                print("KNOWN-FINDING: property=%s %s" % (prop, k["summary"]))
                printed_known.add(sig)
        else:
            violations.append(("input", f))
    # broken proof or correspondence with no failing input that explains it
    unexplained = []
    if ctx.proof_failures or ctx.corr_diffs:
        new_fail = [v for v in violations]
        if not new_fail:
            # is every correspondence diff attributable to a known finding?  (diff lines whose impl answer is a
            # known failing input were already turned into failures by the property module)
            unexplained = ctx.proof_failures + [{"theorem": "correspondence:" + meta.get("ops", prop), **d} for d in ctx.corr_diffs
                                                if not d.get("explained")]
    rc = 0
    for kind, f in violations[:20]:
        p = write_replay(ctx, "input", f)
        print("VIOLATION property=%s replay=%s" % (prop, p))
        rc = 1
    if not violations and unexplained:
        p = write_replay(ctx, "unchecked", {"no_longer_checks": unexplained[:50],
                                            "explanation": "a proof obligation or the model/implementation correspondence "
                                                           "no longer checks and the search found no failing input"})
        print("VIOLATION property=%s replay=%s no-failing-input-found" % (prop, p))
        rc = 1

    # ------------------------------------------------------------------ evidence
    n_thm = len(ctx.theorems)
    n_ok = len([t for t, ax in ctx.theorems.items() if set(ax) <= ALLOWED_AXIOMS]) if build_ok else 0
    cov = dict(ctx.cov)
    cov.update({
        "obligations": max(n_thm, 1),
        "discharged": n_ok,
        "theorems": sorted(ctx.theorems.keys()),
        "checker_cmd": "cd lean && lake build Pyrealb.Props.%s && lake env lean Pyrealb/Audit/%s.lean" % (prop, prop)
                       + (" && lake env leanchecker Pyrealb.Props.%s" % prop if tier == "thorough" else ""),
        "trusted_base": TRUSTED_BASE + meta.get("trusted", []),
        "distinct_nontrivial": len(ctx.distinct),
        "rule": meta.get("rule", ""),
        "exhaustive": bool(ctx.exhaustive),
        "correspondence_diffs": len(ctx.corr_diffs),
        "correspondence_diff_samples": ctx.corr_diffs[:5],
        "known_findings_hit": sorted(printed_known),
        "failure_counts_by_signature": dict(sorted(ctx.fail_counts.items())),
        "notes": ctx.notes,
    })
    if not cov["samples"]:
        cov["samples"] = [{"note": "no correspondence sample was run"}]
    ev = {
        "property_id": prop, "tier": tier, "seed": seed, "level": "proof",
        "coverage": cov,
        "assumptions": meta.get("assumptions", []) + ctx.assumptions,
        "wall_s": round(time.time() - ctx.t0, 2),
        "violations": len(violations) + (1 if (not violations and unexplained) else 0),
    }
    os.makedirs(os.path.join(VERIF, "evidence"), exist_ok=True)
    with open(os.path.join(VERIF, "evidence", prop + ".json"), "w", encoding="utf-8") as f:
        json.dump(ev, f, ensure_ascii=False, indent=1, sort_keys=True, default=str)
    print("%s %s tier=%s seed=%d theorems=%d/%d evaluations=%d distinct=%d diffs=%d failures=%d wall=%.1fs" % (
        "OK" if rc == 0 else "FAIL", prop, tier, seed, n_ok, n_thm, cov["evaluations"], len(ctx.distinct),
        len(ctx.corr_diffs), len(by_sig), time.time() - ctx.t0))
    sys.exit(rc)
