#!/venv/bin/python
"""Regenerates the tables of DESIGN.md §12.3 (per-property coverage, from evidence/*.json and MANIFEST) and §12.4
(seeded changes x checks, from seeded/*/meta.json) between the markers <!-- BEGIN:xxx --> / <!-- END:xxx -->."""
import glob
import json
import os
import re

VERIF = os.path.dirname(os.path.dirname(os.path.abspath(__file__)))


def coverage_table():
    rows = ["| id | theorems (audited / in Audit file) | correspondence evaluations (last run, tier) | distinct non-trivial | known findings hit | wall s |",
            "|---|---|---|---|---|---|"]
    for f in sorted(glob.glob(os.path.join(VERIF, "evidence", "C*.json"))):
        e = json.load(open(f))
        c = e["coverage"]
        rows.append("| %s | %s / %s | %s (%s%s) | %s | %d | %s |" % (
            e["property_id"], c.get("discharged"), c.get("obligations"), c.get("evaluations"), e["tier"],
            ", exhaustive: " + str(c.get("notes", {}).get("exhaustive_scope", ""))[:90] if c.get("exhaustive") else "",
            c.get("distinct_nontrivial"), len(c.get("known_findings_hit", [])), e.get("wall_s")))
    return "\n".join(rows)


def seeded_table():
    rows = ["| seeded change | property | what it does (abridged) | needs to manifest (abridged) | checks run → outcome |",
            "|---|---|---|---|---|"]
    for d in sorted(glob.glob(os.path.join(VERIF, "seeded", "*"))):
        mp = os.path.join(d, "meta.json")
        if not os.path.exists(mp):
            continue
        m = json.load(open(mp))
        outs = []
        for k, v in sorted(m.get("checks", {}).items()):
            lines = v.get("lines", [])
            nf = any("no-failing-input-found" in l for l in lines)
            outs.append("%s: %s" % (k.split(":")[0], ("CAUGHT (no-failing-input-found)" if nf else "CAUGHT (failing input)") if v.get("caught") else "missed"))
        extra = ""
        if m.get("neutralised"):
            extra = " — neutralised by " + m["neutralised"]["by"]
        if m.get("rebased"):
            extra += " — patch re-expressed on the repaired tree"
        rows.append("| %s | %s | %s | %s | %s%s |" % (
            os.path.basename(d), m.get("property"), str(m.get("summary") or "").replace("|", "/").replace("\n", " ")[:160],
            str(m.get("needs_to_manifest") or "").replace("|", "/").replace("\n", " ")[:140], "; ".join(outs) or "not run yet", extra))
    return "\n".join(rows)


def benign_table():
    rows = ["| behaviour-preserving change | what it does (abridged) | checks quiet / run | checks that raised an alarm |", "|---|---|---|---|"]
    for d in sorted(glob.glob(os.path.join(VERIF, "benign", "*"))):
        mp = os.path.join(d, "meta.json")
        if not os.path.exists(mp):
            continue
        m = json.load(open(mp))
        ch = m.get("checks", {})
        quiet = [k for k, v in ch.items() if v.get("quiet")]
        loud = ["%s (%s)" % (k.split(":")[0], "no-failing-input-found" if any("no-failing-input-found" in l for l in v.get("lines", [])) else "VIOLATION")
                for k, v in sorted(ch.items()) if not v.get("quiet")]
        rows.append("| %s | %s | %d / %d | %s |" % (os.path.basename(d), str(m.get("summary") or m.get("kind") or "").replace("|", "/").replace("\n", " ")[:200],
                                                  len(quiet), len(ch), ", ".join(loud) or "none"))
    return "\n".join(rows)


def fixes_list():
    import subprocess
    out = subprocess.run(["git", "-C", "/repo", "log", "--reverse", "--format=%h %s", "--grep=^fix:"], capture_output=True, text=True).stdout
    rows = ["Complete list (`git -C /repo log --grep '^fix:'`, oldest first; %d commits):" % len(out.strip().split("\n")), ""]
    for l in out.strip().split("\n"):
        h, subj = l.split(" ", 1)
        rows.append("- `%s` %s" % (h, subj.replace("|", "/")))
    return "\n".join(rows)


def main():
    p = os.path.join(VERIF, "DESIGN.md")
    t = open(p, encoding="utf-8").read()
    for name, content in (("coverage", coverage_table()), ("seeded", seeded_table()), ("fixes", fixes_list()), ("benign", benign_table())):
        b, e = "<!-- BEGIN:%s -->" % name, "<!-- END:%s -->" % name
        if b in t:
            t = t[:t.index(b) + len(b)] + "\n" + content + "\n" + t[t.index(e):]
    open(p, "w", encoding="utf-8").write(t)
    print("DESIGN.md tables regenerated")


if __name__ == "__main__":
    main()
